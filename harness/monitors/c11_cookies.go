package monitors

import (
	"bytes"
	"context"
	"crypto/tls"
	"encoding/binary"
	"fmt"
	"io"
	"log/slog"
	"math/rand/v2"
	"net"
	"net/netip"
	"reflect"
	"runtime"
	"strings"
	"sync"
	"sync/atomic"
	"time"

	"example.com/scion-time/core/client"
	"example.com/scion-time/net/nts"
	"example.com/scion-time/net/ntske"

	"verif/harness/internal/ev"
	"verif/harness/internal/peer"
)

// C11 — NTS cookie lifecycle: single use, pool capped at eight, requests always fit.
//   leg A: the real IP client (NTS) against a scripted NTS-KE + NTS peer under loss scripts;
//          the peer inspects every request on the wire and tracks the pool level it implies
//   leg B: the monitor as NTS client against the real NTS-KE + NTP listeners (child process):
//          requests with one cookie and 0..7 placeholders; the replies' cookies are then used

const c11CookieLen = 124 // the size of the cookies this project's servers issue

type c11Req struct {
	Len          int      `json:"length"`
	Types        []string `json:"field_types"`
	Cookies      int      `json:"cookie_fields"`
	Placeholders int      `json:"placeholder_fields"`
	Cookie       string   `json:"cookie_tag"`
	LevelBefore  int      `json:"pool_level_before"`
	Answered     bool     `json:"answered"`
}

type c11Peer struct {
	mu      sync.Mutex
	ke      *peer.NTSKEServer
	srv     *peer.NTPServer
	issued  map[int]int
	level   int      // pool level the client must have according to what was issued and what got lost
	pool    []string // model of the client's FIFO cookie pool (tags), exact as long as cookies are used in order
	seen    map[string]bool
	drop    func(n int) bool // loss script: drop the response to the n-th request of this run?
	nreq    int
	reqs    []c11Req
	problem []string
	keConns int
	hold    chan struct{} // if set: a response is held back until the channel is closed
	surplus int           // cookies a response carries beyond those asked for
	perKE   int           // cookies the key-exchange server issues per exchange (0: eight)
	replay  bool          // the response to the previous request arrives once more, in front of the response to this one
	last    []byte        // the last response sent
}

func (p *c11Peer) handle(s *peer.NTPServer, dg []byte, from netip.AddrPort, rx time.Time) {
	p.mu.Lock()
	defer p.mu.Unlock()
	f, ok := peer.ParseNTP(dg)
	if !ok {
		return
	}
	rq := c11Req{Len: len(dg), LevelBefore: p.level}
	var uid, cookie []byte
	for _, fl := range peer.ParseNTSFields(dg) {
		switch fl.Type {
		case 0x0104:
			uid = fl.Body
			rq.Types = append(rq.Types, "unique-id")
		case 0x0204:
			rq.Cookies++
			if cookie == nil {
				cookie = fl.Body
			}
			rq.Types = append(rq.Types, "cookie")
		case 0x0304:
			rq.Placeholders++
			rq.Types = append(rq.Types, "placeholder")
			if fl.Len-4 != (c11CookieLen+3)&^3 {
				p.problem = append(p.problem, "placeholder body length differs from the cookie length")
			}
		case 0x0404:
			rq.Types = append(rq.Types, "authenticator")
		default:
			rq.Types = append(rq.Types, fmt.Sprintf("0x%04x", fl.Type))
		}
	}
	conn, idx, okc := peer.ParseTaggedCookie(cookie)
	rq.Cookie = fmt.Sprintf("%d.%d", conn, idx)
	n := p.nreq
	p.nreq++
	defer func() { p.reqs = append(p.reqs, rq) }()
	if !okc || len(uid) < 32 {
		p.problem = append(p.problem, "request without a recognisable cookie or unique identifier")
		return
	}
	var keys *peer.NTSKEConn
	for _, c := range p.ke.Conns() {
		if c.ID == conn {
			keys = c
		}
	}
	if keys == nil {
		return
	}
	if conn != p.keConns && idx < 8 { // first request after a (re-)key exchange: the pool was refilled with 8 cookies
		p.keConns = conn
		p.pool = nil
		issued := 8
		if p.perKE > 0 {
			issued = p.perKE
		}
		for i := 0; i < issued; i++ {
			p.pool = append(p.pool, fmt.Sprintf("%d.%d", conn, i))
		}
	}
	// the pool is a queue: cookies in front of this one were spent by calls that ended before their
	// request reached the wire (a deadline that expired during the key exchange, for instance)
	at := -1
	for i, t := range p.pool {
		if t == rq.Cookie {
			at = i
		}
	}
	if at < 0 {
		p.problem = append(p.problem, "cookie "+rq.Cookie+" is not in the pool the server side accounts for (sent twice, or never issued)")
		return
	}
	p.pool = p.pool[at:]
	p.level = len(p.pool)
	rq.LevelBefore = p.level
	p.pool = p.pool[1:]
	tag := string(cookie[:16])
	if p.seen[tag] {
		p.problem = append(p.problem, "cookie "+rq.Cookie+" sent in two requests")
	}
	p.seen[tag] = true
	if rq.Cookies != 1 {
		p.problem = append(p.problem, fmt.Sprintf("request carries %d cookie fields", rq.Cookies))
	}
	if rq.Placeholders != 8-rq.LevelBefore {
		p.problem = append(p.problem, fmt.Sprintf("request at pool level %d carries %d placeholder fields (typed as placeholders), want %d", rq.LevelBefore, rq.Placeholders, 8-rq.LevelBefore))
	}
	if rq.Len > nts.MaxPacketLen {
		p.problem = append(p.problem, fmt.Sprintf("request of %d bytes exceeds the maximum NTS packet size", rq.Len))
	}
	if !peer.NTSOpenRequest(dg, keys.C2S) {
		p.problem = append(p.problem, "request does not authenticate under the client-to-server key")
	}
	p.level-- // the cookie is spent
	if p.drop != nil && p.drop(n) {
		return // response lost
	}
	want := rq.Cookies + rq.Placeholders
	var cs [][]byte
	kept := 0
	for i := 0; i < want+p.surplus; i++ {
		p.issued[keys.ID]++
		cs = append(cs, peer.TaggedCookie(keys.ID, 100+p.issued[keys.ID], c11CookieLen))
		// a server that sends more cookies than were asked for: the client keeps a pool of eight
		if len(p.pool) < 8 {
			p.pool = append(p.pool, fmt.Sprintf("%d.%d", keys.ID, 100+p.issued[keys.ID]))
			kept++
		}
	}
	now := time.Now()
	hdr := peer.NTPFields{LVM: 0x24, Stratum: 1, Poll: f.Poll, Precision: -30, Origin: f.Transmit, Receive: peer.ToNTP64(rx), Transmit: peer.ToNTP64(now)}.Bytes()
	resp := peer.NTSResponse(hdr, uid, cs, keys.S2C)
	if h := p.hold; h != nil {
		p.mu.Unlock()
		<-h
		p.mu.Lock()
	}
	if p.replay && p.last != nil {
		s.Send(from, p.last) // authentic under the session's key, but it answers another request
	}
	s.Send(from, resp)
	p.last = resp
	p.level += kept
	rq.Answered = true
}

// c11PoolLen reads the length of the client's cookie pool (an unexported field; only its length is read).
func c11PoolLen(c *client.IPClient) int {
	return reflect.ValueOf(&c.Auth.NTSKEFetcher).Elem().FieldByName("data").FieldByName("Cookie").Len()
}

// c11Overlap: a key exchange that outlives its round. The rounds of the time service give up at
// their deadline while the measurement call of that round, stuck in a stalled TLS handshake, goes
// on; the next round uses the same client. The stalled exchange fails while the next round's
// NTS exchange is in flight. Whatever happens, the third round must not crash the client, and
// the successful second round must not leave the client with a pool it cannot use.
func c11Overlap(r *ev.Run, p *c11Peer, srvIP netip.Addr, local *net.UDPAddr, keAddr netip.AddrPort) {
	log := slog.New(slog.DiscardHandler)
	for k := 0; k < r.Pick(3, 60); k++ {
		id := fmt.Sprintf("overlap%d", k)
		if r.Only() != "" && r.Only() != id {
			continue
		}
		// variants: a client in interleaved mode makes up to three attempts per call, so that the call that
		// outlived its round comes back to the fetcher; a key-exchange server that issues one cookie per
		// exchange leaves the pool empty while the later round's request is in flight
		inter, perKE := k%3 != 0, 8
		if k%3 == 1 {
			perKE = 1
		}
		c := &client.IPClient{Log: log, InterleavedMode: inter}
		c.Auth.Enabled = true
		c.Auth.NTSKEFetcher = *c20NewFetcher(keAddr)
		p.ke.SetScript(func(kc *peer.NTSKEConn) ([]byte, []int, int) {
			var cs [][]byte
			for i := 0; i < perKE; i++ {
				cs = append(cs, peer.TaggedCookie(kc.ID, i, c11CookieLen))
			}
			return peer.KEMessage(15, srvIP.String(), p.srv.Addr.Port(), cs), nil, -1
		})
		p.mu.Lock()
		p.perKE = perKE
		p.mu.Unlock()
		variant := fmt.Sprintf("after a key exchange that outlived its round,interleaved=%v,cookies per key exchange=%d", inter, perKE)
		if !inter && perKE == 8 {
			variant = "after a key exchange that outlived its round"
		}
		gate := make(chan struct{})
		first := true
		var gmu sync.Mutex
		p.ke.HandshakeGate = func(n int) <-chan struct{} {
			gmu.Lock()
			defer gmu.Unlock()
			if first {
				first = false
				return gate
			}
			return nil
		}
		hold := make(chan struct{})
		p.mu.Lock()
		p.nreq, p.reqs, p.problem, p.drop, p.hold = 0, nil, nil, nil, hold
		p.mu.Unlock()
		measure := func(d time.Duration) (err error, pnc any) {
			ctx, cancel := context.WithTimeout(context.Background(), d)
			defer cancel()
			pnc = c02Recover(func() {
				_, _, err = client.MeasureClockOffsetIP(ctx, log, c, local, &net.UDPAddr{IP: srvIP.AsSlice(), Port: 1})
			})
			return
		}
		// round 1: its key exchange stalls in the TLS handshake and outlives the round
		done1 := make(chan struct{})
		go func() { defer close(done1); _, _ = measure(100 * time.Millisecond) }()
		time.Sleep(150 * time.Millisecond)
		// round 2 on the same client: key exchange fine, the NTS response is held back
		type res struct {
			err error
			pnc any
		}
		done2 := make(chan res, 1)
		go func() { e, pn := measure(2 * time.Second); done2 <- res{e, pn} }()
		deadline := time.Now().Add(time.Second)
		for time.Now().Before(deadline) {
			p.mu.Lock()
			n := p.nreq
			p.mu.Unlock()
			if n > 0 {
				break
			}
			time.Sleep(2 * time.Millisecond)
		}
		close(gate) // round 1's exchange fails now
		select {
		case <-done1:
		case <-time.After(8 * time.Second):
		}
		close(hold) // round 2's response arrives
		p.mu.Lock()
		p.hold = nil
		p.mu.Unlock()
		r2 := <-done2
		p.ke.HandshakeGate = nil
		// round 3
		e3, p3 := measure(1500 * time.Millisecond)
		r.Eval(3)
		w := map[string]any{"round2_error": fmt.Sprint(r2.err), "round2_panic": fmt.Sprint(r2.pnc), "round3_error": fmt.Sprint(e3), "round3_panic": fmt.Sprint(p3)}
		switch {
		case r2.pnc != nil || p3 != nil:
			r.Violation("ip-client(NTS)|panic while building or sending a request|"+variant, id, w)
		case r2.err == nil && e3 != nil:
			r.Violation("ip-client(NTS)|wrong-value:successful exchange left the client unable to complete the next one|"+variant, id, w)
		case r2.err == nil:
			r.Class(fmt.Sprintf("overlap:stalled exchange of an earlier round does not disturb the later rounds(interleaved=%v,cookies per key exchange=%d)", inter, perKE))
		default:
			r.Class("overlap:round 2 failed (" + firstWord(fmt.Sprint(r2.err)) + ")")
		}
	}
}

func c11ClientLeg(r *ev.Run) {
	registerScriptedRealClock()
	log := slog.New(slog.DiscardHandler)
	srvIP, cliIP := blockIP(r, 11, 1), blockIP(r, 11, 2)
	p := &c11Peer{issued: map[int]int{}, seen: map[string]bool{}}
	var err error
	if p.srv, err = peer.NewNTPServer(netip.AddrPortFrom(srvIP, 0), p.handle); err != nil {
		r.Inconclusive(err.Error())
		return
	}
	if p.ke, err = peer.NewNTSKEServer(netip.AddrPortFrom(srvIP, 0), nil, nil); err != nil {
		r.Inconclusive(err.Error())
		return
	}
	p.ke.SetScript(func(c *peer.NTSKEConn) ([]byte, []int, int) {
		var cs [][]byte
		for i := 0; i < 8; i++ {
			cs = append(cs, peer.TaggedCookie(c.ID, i, c11CookieLen))
		}
		return peer.KEMessage(15, srvIP.String(), p.srv.Addr.Port(), cs), nil, -1
	})
	keAddr := netip.AddrPortFrom(srvIP, uint16(p.ke.L.Addr().(*net.TCPAddr).Port))
	local := &net.UDPAddr{IP: cliIP.AsSlice()}
	// one run = a fresh client driven through a loss pattern (true = response lost)
	slow, total := 0, 0
	run := func(id string, pattern []bool) {
		if r.Only() != "" && r.Only() != id {
			return
		}
		c := &client.IPClient{Log: log}
		c.Auth.Enabled = true
		c.Auth.NTSKEFetcher = *c20NewFetcher(keAddr)
		p.mu.Lock()
		p.nreq, p.reqs, p.problem = 0, nil, nil
		p.drop = func(n int) bool { return n < len(pattern) && pattern[n] }
		p.replay, p.last = strings.HasPrefix(id, "y"), nil
		p.surplus = 0
		if strings.HasPrefix(id, "s") {
			p.surplus = []int{1, 3, 9}[len(pattern)%3]
		}
		p.mu.Unlock()
		reportProblems := func(outcome []string) {
			p.mu.Lock()
			defer p.mu.Unlock()
			w := map[string]any{"loss_pattern": pattern, "outcomes": outcome, "requests": p.reqs}
			seenSig := map[string]bool{}
			for _, pr := range p.problem {
				key := pr
				if i := bytes.IndexAny([]byte(pr), "0123456789"); i > 0 {
					key = pr[:i]
				}
				if !seenSig[key] {
					seenSig[key] = true
					w["problem"] = pr
					r.Violation("ip-client(NTS)|wrong-request:"+firstWord(pr), id, w)
				}
			}
		}
		var outcome []string
		minLevel := 8
		for i := range pattern {
			timeout := 1500 * time.Millisecond
			if pattern[i] {
				timeout = 60 * time.Millisecond // a lost response: the call can only time out
			}
			ctx, cancel := context.WithTimeout(context.Background(), timeout)
			var err error
			pnc := c02Recover(func() {
				_, _, err = client.MeasureClockOffsetIP(ctx, log, c, local, &net.UDPAddr{IP: srvIP.AsSlice(), Port: 1})
			})
			cancel()
			r.Eval(1)
			total++
			p.mu.Lock()
			lvl := p.level
			p.mu.Unlock()
			if lvl < minLevel {
				minLevel = lvl
			}
			if n := c11PoolLen(c); n > 8 {
				p.mu.Lock()
				w := map[string]any{"loss_pattern": pattern, "at_exchange": i, "cookies_in_the_client's_pool": n, "surplus_cookies_per_response": p.surplus, "requests": p.reqs}
				p.mu.Unlock()
				r.Violation("ip-client(NTS)|state:cookie pool grew beyond eight", id, w)
				return
			}
			switch {
			case pnc != nil:
				outcome = append(outcome, "panic")
				p.mu.Lock()
				w := map[string]any{"loss_pattern": pattern, "at_exchange": i, "pool_level": lvl, "panic": fmt.Sprint(pnc), "requests": p.reqs}
				p.mu.Unlock()
				r.Violation(fmt.Sprintf("ip-client(NTS)|panic while building or sending a request|pool-level=%d", lvl), id, w)
				return
			case err != nil && !pattern[i] && strings.Contains(err.Error(), "timeout"):
				// a delivered exchange that still ran into its (generous) deadline: the machine is busy;
				// counted, and too many of them make the run inconclusive
				outcome = append(outcome, "timeout")
				p.mu.Lock()
				np := len(p.problem)
				p.mu.Unlock()
				if np > 0 {
					// the scripted server refused to answer because of what the request carried: not a busy machine
					reportProblems(outcome)
					return
				}
				slow++
				r.Class("pattern-abandoned(delivered exchange ran into its deadline)")
				return // the client did not store that response's cookies: the pool model no longer applies
			case err != nil:
				outcome = append(outcome, "error")
				if !pattern[i] {
					p.mu.Lock()
					w := map[string]any{"loss_pattern": pattern, "at_exchange": i, "error": err.Error(), "requests": p.reqs, "problems": p.problem}
					p.mu.Unlock()
					r.Violation("ip-client(NTS)|wrong-value:exchange with a delivered, valid response failed", id, w)
					return
				}
			default:
				outcome = append(outcome, "ok")
			}
		}
		reportProblems(outcome)
		p.mu.Lock()
		defer p.mu.Unlock()
		for _, rq := range p.reqs {
			r.Class(fmt.Sprintf("request-at-pool-level-%d", rq.LevelBefore))
			if rq.Answered && rq.LevelBefore < 8 {
				r.Class("pool-refilled-after-loss")
			}
		}
		if minLevel <= 0 {
			r.Class("pool-drained-and-rekeyed")
		}
		r.Distinct(fmt.Sprint(pattern))
		if id == "p3" || id == "x17" {
			r.Sample(map[string]any{"case": id, "loss_pattern": pattern, "outcomes": outcome, "requests": p.reqs})
		}
	}
	// exhaustive loss patterns of length L over {ok, lost}, then longer structured ones
	L := r.Pick(7, 10)
	for code := 0; code < 1<<L; code++ {
		pat := make([]bool, L+1) // one final delivered exchange shows the pool after the pattern
		for i := 0; i < L; i++ {
			pat[i] = code>>i&1 == 1
		}
		run(fmt.Sprintf("x%d", code), pat)
		if r.NumViolations() > 6 {
			break
		}
	}
	for k, lost := range []int{7, 8, 9, 10, 16, 17} { // drain to (and past) empty, re-key, continue
		pat := make([]bool, lost+3)
		for i := 0; i < lost; i++ {
			pat[i] = true
		}
		run(fmt.Sprintf("d%d", k), pat)
	}
	rng := r.Rng("c11")
	for k := 0; k < r.Pick(9, 150); k++ { // responses that carry more cookies than were asked for
		pat := make([]bool, 6+k%7)
		for i := range pat {
			pat[i] = rng.IntN(4) == 0
		}
		pat[len(pat)-1] = false
		run(fmt.Sprintf("s%d", k), pat)
		r.Class("responses-with-surplus-cookies")
	}
	for k := 0; k < r.Pick(6, 100); k++ { // the previous response duplicated in front of every response
		pat := make([]bool, 14+k%9)
		for i := range pat {
			pat[i] = rng.IntN(6) == 0
		}
		pat[len(pat)-1] = false
		run(fmt.Sprintf("y%d", k), pat)
		r.Class("previous-response-duplicated-in-front-of-each-response")
	}
	for k := 0; k < r.Pick(20, 600); k++ {
		pat := make([]bool, 12+rng.IntN(30))
		for i := range pat {
			pat[i] = rng.IntN(3) != 0
		}
		pat[len(pat)-1] = false
		run(fmt.Sprintf("p%d", k), pat)
	}
	if r.Only() == "" || strings.HasPrefix(r.Only(), "overlap") {
		c11Overlap(r, p, srvIP, local, keAddr)
	}
	p.srv.Close()
	p.ke.Close()
	r.Set("delivered_exchanges_that_timed_out", slow)
	if slow*50 > total {
		r.Inconclusive(fmt.Sprintf("%d of %d exchanges with a delivered response ran into the 1.5 s deadline (machine too busy)", slow, total))
	}
}

// ---- leg B: the real server side

func c11ServerLeg(r *ev.Run) {
	srv, cli := blockIP(r, 11, 21), blockIP(r, 11, 22)
	tgt, err := StartTarget("plain", "-ip", srv.String(), "-kinds", "ip,ntske")
	if err != nil {
		r.Inconclusive("target: " + err.Error())
		return
	}
	defer tgt.Kill()
	d, err := fetchNTS(srv)
	if err != nil || len(d.Cookie) != 8 {
		r.Inconclusive(fmt.Sprint("key exchange with the target failed: ", err))
		return
	}
	uc, err := peer.NewUDPClient(cli)
	if err != nil {
		r.Inconclusive(err.Error())
		return
	}
	dst := netip.AddrPortFrom(srv, 123)
	rng := r.Rng("c11b")
	pool := append([][]byte{}, d.Cookie...)
	usedOK := 0
	seen := map[string]bool{}
	for _, c := range pool {
		seen[string(c)] = true
	}
	// one exchange: cookie + np placeholders; returns the fresh cookies of the reply
	exchange := func(id string, cookie []byte, np int) ([][]byte, bool) {
		hdr := peer.NTPRequest(peer.UniqueTime64())
		ul := 32
		if np >= 7 && rng.IntN(2) == 0 { // longer unique identifiers leave less room for cookies
			ul = []int{33, 64, 100, 119, 120, 124, 128, 132, 133, 200, 247, 248, 256, 260, 261, 300, 376, 388, 500}[rng.IntN(19)]
		}
		uid := randBytes(rng, ul)
		for np > 0 && 48+4+ul+3+(np+1)*132+40 > 2000 { // stay within the listener's 2048-byte receive buffer
			np--
		}
		pkt := peer.NTSRequest(hdr, uid, cookie, np, d.C2sKey)
		if err := uc.Send(dst, pkt); err != nil {
			return nil, false
		}
		tx := binary.BigEndian.Uint64(hdr[40:])
		_, hit := uc.ReadUntil(3*time.Second, func(dg peer.Datagram) bool { return peer.NTPOrigin(dg.Data) == tx })
		r.Eval(1)
		w := map[string]any{"placeholders": np, "request_length": len(pkt), "unique_id_length": ul}
		if hit == nil {
			if !tgt.Alive() {
				first, frame := tgt.ExitInfo()
				w["panic"], w["frame"] = first, frame
				r.Violation("ntp-ip-listener|panic|authenticated request", id, w)
				return nil, false
			}
			r.Violation(fmt.Sprintf("ntp-ip-listener|missing-reply:authenticated request not answered|placeholders=%d", np), id, w)
			return nil, false
		}
		rep := hit.Data
		w["reply_length"] = len(rep)
		if len(rep) > nts.MaxPacketLen {
			r.Violation(fmt.Sprintf("ntp-ip-listener|wrong-reply:reply exceeds the maximum NTS packet size|placeholders=%d", np), id, w)
		}
		cookies, problem := peer.NTSOpenResponse(rep, d.S2cKey, uid)
		if problem != "" {
			w["problem"] = problem
			r.Violation(fmt.Sprintf("ntp-ip-listener|wrong-reply:reply cannot be authenticated by the requester|placeholders=%d", np), id, w)
			return nil, false
		}
		want := 1 + np
		fit := (nts.MaxPacketLen - 48 - (4 + (ul+3)&^3) - 4 - 4 - 16 - 16) / (4 + (c11CookieLen+3)&^3)
		if len(cookies) != min(want, fit) && len(cookies) != want {
			w["cookies"], w["wanted"], w["fit"] = len(cookies), want, fit
			r.Violation(fmt.Sprintf("ntp-ip-listener|wrong-reply:number of fresh cookies is neither the number requested nor as many as fit|placeholders=%d", np), id, w)
		}
		for _, c := range cookies {
			if seen[string(c)] {
				r.Violation("ntp-ip-listener|wrong-reply:cookie issued twice", id, w)
			}
			seen[string(c)] = true
		}
		r.Class(fmt.Sprintf("reply-with-%d-cookies", len(cookies)))
		return cookies, true
	}
	n := r.Pick(200, 5000)
	for i := 0; i < n && len(pool) > 0; i++ {
		id := fmt.Sprintf("b%d", i)
		if r.Only() != "" && r.Only() != id {
			continue
		}
		k := rng.IntN(len(pool))
		c := pool[k]
		pool = append(pool[:k], pool[k+1:]...)
		np := i % 8
		if i%5 == 4 {
			np = 7 + rng.IntN(7) // up to more fields than a conforming client sends: as many cookies as fit
		}
		fresh, ok := exchange(id, c, np)
		if !ok {
			if r.NumViolations() > 8 {
				break
			}
			if len(pool) == 0 {
				pool = append(pool, d.Cookie[0])
			}
			continue
		}
		usedOK++
		// every fresh cookie must open under a valid key to the same session keys: it is used in a later request
		pool = append(pool, fresh...)
		if len(pool) > 64 {
			pool = pool[len(pool)-64:]
		}
	}
	r.Set("server_leg_exchanges_ok", usedOK)
	if usedOK > 20 {
		r.Class("fresh-cookies-accepted-in-later-requests")
	}
	if r.Only() == "" {
		c11Concurrent(r, tgt, srv)
	}
}

// c11Concurrent: several NTS sessions, each on a socket of its own (so that different listener
// goroutines serve them), ask for eight cookies at the same time. Afterwards every cookie a
// session received is spent by that session: it must open to that session's keys, i.e. the
// request authenticated under the session's C2S key must be answered under its S2C key.
func c11Concurrent(r *ev.Run, tgt *Target, srv netip.Addr) {
	const sessions = 12
	rounds := r.Pick(160, 3000)
	type sess struct {
		d      ntske.Data
		uc     *peer.UDPClient
		fresh  [][]byte
		lost   int
		unauth []string
	}
	var ss []*sess
	for i := 0; i < sessions; i++ {
		d, err := fetchNTS(srv)
		if err != nil || len(d.Cookie) != 8 {
			r.Inconclusive(fmt.Sprint("key exchange with the target failed: ", err))
			return
		}
		uc, err := peer.NewUDPClient(blockIP(r, 11, 30+i))
		if err != nil {
			r.Inconclusive(err.Error())
			return
		}
		defer uc.Close()
		ss = append(ss, &sess{d: d, uc: uc})
	}
	dst := netip.AddrPortFrom(srv, 123)
	one := func(s *sess, cookie []byte, np int, rng *rand.Rand) ([][]byte, string) {
		hdr := peer.NTPRequest(peer.UniqueTime64())
		uid := randBytes(rng, 32)
		pkt := peer.NTSRequest(hdr, uid, cookie, np, s.d.C2sKey)
		if err := s.uc.Send(dst, pkt); err != nil {
			return nil, "send: " + err.Error()
		}
		tx := binary.BigEndian.Uint64(hdr[40:])
		_, hit := s.uc.ReadUntil(2*time.Second, func(dg peer.Datagram) bool { return peer.NTPOrigin(dg.Data) == tx })
		if hit == nil {
			return nil, "no reply"
		}
		cs, problem := peer.NTSOpenResponse(hit.Data, s.d.S2cKey, uid)
		if problem != "" {
			return nil, "reply does not authenticate: " + problem
		}
		return cs, ""
	}
	var wg sync.WaitGroup
	var arrived atomic.Int32
	for i, s := range ss {
		wg.Add(1)
		go func(i int, s *sess) {
			defer wg.Done()
			rng := rand.New(rand.NewPCG(uint64(r.Seed()), uint64(7000+i)))
			cookie := s.d.Cookie[0]
			for k := 0; k < rounds; k++ {
				if k%8 == 0 { // start the next batch together
					arrived.Add(1)
					for spin := 0; arrived.Load() < int32(sessions*(k/8+1)) && spin < 200000; spin++ {
						runtime.Gosched()
					}
				}
				cs, problem := one(s, cookie, 7, rng)
				if strings.HasPrefix(problem, "reply does not authenticate") {
					s.unauth = append(s.unauth, problem)
				}
				if problem != "" {
					s.lost++
					continue
				}
				if len(cs) > 0 {
					cookie = cs[0]
					s.fresh = append(s.fresh, cs[1:]...)
				}
			}
		}(i, s)
	}
	wg.Wait()
	// every cookie received is now spent by the session that received it
	total, bad, lost := 0, 0, 0
	for i, s := range ss {
		rng := rand.New(rand.NewPCG(uint64(r.Seed()), uint64(8000+i)))
		lost += s.lost
		if len(s.unauth) > 0 {
			r.Violation("ntp-ip-listener|wrong-reply:reply cannot be authenticated by the requester|concurrent NTS sessions", "conc", map[string]any{"session": i, "problems": s.unauth[:min(3, len(s.unauth))]})
		}
		if len(s.fresh) > r.Pick(300, 2500) { // the most recent ones: issued when all sessions were running
			s.fresh = s.fresh[len(s.fresh)-r.Pick(300, 2500):]
		}
		for _, c := range s.fresh {
			total++
			r.Eval(1)
			if _, problem := one(s, c, 0, rng); problem != "" {
				if !tgt.Alive() {
					first, frame := tgt.ExitInfo()
					r.Violation("ntp-ip-listener|panic|concurrent NTS sessions", "conc", map[string]any{"panic": first, "frame": frame})
					return
				}
				bad++
				if bad <= 3 {
					r.Violation("ntp-ip-listener|wrong-reply:cookie issued while other sessions were served at the same time does not open to the keys of the session it was sent to", "conc",
						map[string]any{"session": i, "problem": problem, "cookie": ev.Hex(c)})
				}
			}
		}
	}
	r.Set("concurrent_sessions_cookies_spent", total)
	r.Set("concurrent_sessions_exchanges_lost", lost)
	if total > 50 && bad == 0 {
		r.Class("concurrent-sessions:every cookie opens to its own session")
	}
	if lost*10 > sessions*rounds {
		r.Inconclusive(fmt.Sprintf("%d of %d concurrent exchanges went unanswered (machine too busy)", lost, sessions*rounds))
	}
}

// ---- leg C: server key rotations in between (key provider aged through its verif hook)
//
// The listener process is told to age its keys by hours to days between exchanges. The
// harness keeps, for every cookie it holds, the time since it was issued, and asks the hook
// for the age of every key; the key identifier is the clear-text head of a cookie.
// Oracle: a cookie issued at most two days ago is served; a cookie whose key was generated
// more than three days ago is not; every cookie of a reply (and of a key exchange) is sealed
// under a key generated at most 24 h before, and is itself accepted later under the same
// session keys.
func c11Rotation(r *ev.Run, block int) {
	const hour = int64(time.Hour)
	const slack = int64(2 * time.Minute) // real time that passes during a scenario
	steps := []int64{1 * hour, 6 * hour, 12 * hour, 23 * hour, 25 * hour, 30 * hour, 47 * hour, 49 * hour, 71 * hour, 73 * hour, 100 * hour}
	rng := r.Rng("c11rot")
	nScen := r.Pick(6, 60)
	for k := 0; k < nScen; k++ {
		sid := fmt.Sprintf("rot%d", k)
		var plan []int64
		for i := 0; i < 6+rng.IntN(8); i++ {
			d := steps[rng.IntN(len(steps))]
			if k%3 == 0 { // short steps: several generations alive at once
				d = steps[rng.IntN(6)]
			}
			plan = append(plan, d)
		}
		if r.Only() != "" && r.Only() != sid {
			continue
		}
		func() {
			srv, cli := blockIP(r, block, 23), blockIP(r, block, 24)
			tgt, err := StartTarget("plain", "-ip", srv.String(), "-kinds", "ip,ntske")
			if err != nil {
				r.Inconclusive("target: " + err.Error())
				return
			}
			defer tgt.Kill()
			d, err := fetchNTS(srv)
			if err != nil || len(d.Cookie) != 8 {
				r.Inconclusive(fmt.Sprint("key exchange with the target failed: ", err))
				return
			}
			uc, err := peer.NewUDPClient(cli)
			if err != nil {
				r.Inconclusive(err.Error())
				return
			}
			defer uc.Close()
			dst := netip.AddrPortFrom(srv, 123)
			keyID := func(c []byte) int {
				if len(c) < 6 {
					return -1
				}
				return int(binary.BigEndian.Uint16(c[4:]))
			}
			var pool []c11Held
			for _, c := range d.Cookie {
				pool = append(pool, c11Held{c, 0, d})
			}
			checkSealed := func(what string, cookies [][]byte, w map[string]any) {
				keys, ok := tgt.Keys("KEYS", 5*time.Second)
				if !ok {
					r.Inconclusive("target did not report its keys")
					return
				}
				for _, c := range cookies {
					age, known := keys[keyID(c)]
					w["cookie_key_id"], w["keys_ns"] = keyID(c), keys
					if !known {
						r.Violation("nts-listener|wrong-reply:fresh cookie names a key the provider does not hold|"+what, sid, w)
						return
					}
					if age > 24*hour+slack {
						w["key_age_h"] = float64(age) / float64(hour)
						r.Violation("nts-listener|wrong-reply:fresh cookie sealed under a key generated more than 24 h before|"+what, sid, w)
						return
					}
				}
				r.Class("fresh cookies sealed under a key of at most 24 h|" + what)
			}
			var elapsed int64
			for si, dAge := range plan {
				var slow *tls.Conn
				if rng.IntN(2) == 0 {
					if c, err := tls.DialWithDialer(&net.Dialer{Timeout: 3 * time.Second}, "tcp", netip.AddrPortFrom(srv, uint16(ntske.ServerPortIP)).String(),
						&tls.Config{InsecureSkipVerify: true, MinVersion: tls.VersionTLS13, NextProtos: []string{"ntske/1"}}); err == nil {
						slow = c
					}
				}
				keys, ok := tgt.Keys(fmt.Sprintf("AGE %d", dAge), 5*time.Second)
				if !ok {
					r.Inconclusive("target did not answer the AGE command")
					return
				}
				elapsed += dAge
				for i := range pool {
					pool[i].issued += dAge
				}
				// a fresh key exchange now and then: its cookies must be sealed under a young key
				if rng.IntN(3) == 0 {
					if d2, err := fetchNTS(srv); err == nil && len(d2.Cookie) == 8 {
						r.Eval(1)
						checkSealed("key exchange", d2.Cookie, map[string]any{"step": si, "elapsed_h": elapsed / hour})
						for _, c := range d2.Cookie[:2] {
							pool = append(pool, c11Held{c, 0, d2})
						}
					} else {
						r.Violation("nts-ke-listener|missing-reply:key exchange failed after the keys aged", sid, map[string]any{"step": si, "error": fmt.Sprint(err)})
					}
				}
				// a slow client: the connection to the key-exchange server is opened (handshake done) before
				// the keys age, the request is sent afterwards; the cookies are issued then, not at accept time
				if slow != nil {
					kr := append(append(peer.KERecord(1, true, []byte{0, 0}), peer.KERecord(4, true, []byte{0, 15})...), peer.KERecord(0, true, nil)...)
					_ = slow.SetDeadline(time.Now().Add(5 * time.Second))
					_, werr := slow.Write(kr)
					resp, _ := io.ReadAll(slow)
					slow.Close()
					slow = nil
					var cs [][]byte
					for pos := 0; pos+4 <= len(resp); {
						t := binary.BigEndian.Uint16(resp[pos:]) & 0x7fff
						l := int(binary.BigEndian.Uint16(resp[pos+2:]))
						if pos+4+l > len(resp) {
							break
						}
						if t == 5 {
							cs = append(cs, resp[pos+4:pos+4+l])
						}
						pos += 4 + l
					}
					r.Eval(1)
					if werr == nil && len(cs) > 0 {
						checkSealed("key exchange whose connection was opened before the keys aged", cs, map[string]any{"step": si, "aged_by_h": dAge / hour, "elapsed_h": elapsed / hour})
					} else {
						r.Class("slow key exchange: no cookies (connection timed out or refused)")
					}
				}
				// spend up to three cookies of different ages
				for n := 0; n < 3 && len(pool) > 0; n++ {
					i := rng.IntN(len(pool))
					if n == 0 { // the oldest one first
						for j := range pool {
							if pool[j].issued > pool[i].issued {
								i = j
							}
						}
					}
					h := pool[i]
					pool = append(pool[:i], pool[i+1:]...)
					if keys, ok = tgt.Keys("KEYS", 5*time.Second); !ok { // keys generated since the last report
						r.Inconclusive("target did not report its keys")
						return
					}
					kAge, held := keys[keyID(h.c)]
					np := rng.IntN(8)
					hdr := peer.NTPRequest(peer.UniqueTime64())
					uid := randBytes(rng, 32)
					pkt := peer.NTSRequest(hdr, uid, h.c, np, h.d.C2sKey)
					if err := uc.Send(dst, pkt); err != nil {
						r.Inconclusive(err.Error())
						return
					}
					tx := binary.BigEndian.Uint64(hdr[40:])
					mustServe := h.issued <= 48*hour-slack
					mustRefuse := !held || kAge > 72*hour+slack
					// a plain request right behind it on the same socket (same listener goroutine): once
					// its reply is here, a missing reply to the cookie request is decided
					sent := peer.NTPRequest(peer.UniqueTime64())
					stx := binary.BigEndian.Uint64(sent[40:])
					if err := uc.Send(dst, sent); err != nil {
						r.Inconclusive(err.Error())
						return
					}
					_, hit := uc.ReadUntil(3*time.Second, func(dg peer.Datagram) bool {
						o := peer.NTPOrigin(dg.Data)
						return o == tx || o == stx
					})
					if hit == nil {
						if tgt.Alive() {
							r.Violation("nts-listener|missing-reply:plain request after key ageing not answered", sid, map[string]any{"step": si})
							return
						}
					} else if peer.NTPOrigin(hit.Data) == stx {
						hit = nil
					} else {
						uc.ReadUntil(time.Second, func(dg peer.Datagram) bool { return peer.NTPOrigin(dg.Data) == stx })
					}
					r.Eval(1)
					w := map[string]any{"step": si, "plan_h": planHours(plan), "cookie_issued_h_ago": float64(h.issued) / float64(hour), "cookie_key_id": keyID(h.c),
						"key_age_h": float64(kAge) / float64(hour), "key_held": held, "placeholders": np}
					if !tgt.Alive() {
						first, frame := tgt.ExitInfo()
						w["panic"], w["frame"] = first, frame
						r.Violation("nts-listener|panic|request after key ageing", sid, w)
						return
					}
					switch {
					case hit == nil && mustServe:
						r.Violation("nts-listener|missing-reply:cookie issued at most two days ago no longer served", sid, w)
						continue
					case hit != nil && mustRefuse:
						r.Violation("nts-listener|unexpected-reply:cookie served more than three days after its key was generated", sid, w)
					case hit == nil:
						if mustRefuse {
							r.Class("cookie of a retired key refused")
						} else {
							r.Class("cookie between two and three days: refused")
						}
						continue
					}
					if mustServe {
						r.Class(fmt.Sprintf("cookie issued %s ago served", hBucket(h.issued)))
					} else if !mustRefuse {
						r.Class("cookie between two and three days: served")
					}
					fresh, problem := peer.NTSOpenResponse(hit.Data, h.d.S2cKey, uid)
					if problem != "" {
						w["problem"] = problem
						r.Violation("nts-listener|wrong-reply:reply cannot be authenticated by the requester|after key ageing", sid, w)
						continue
					}
					checkSealed("ntp reply", fresh, w)
					for _, c := range fresh {
						if len(pool) < 24 {
							pool = append(pool, c11Held{c, 0, h.d})
						}
					}
				}
			}
			r.Distinct(fmt.Sprint("rot", plan))
		}()
		if r.NumViolations() > 8 {
			return
		}
	}
}

type c11Held struct {
	c      []byte
	issued int64 // ns since the cookie was received
	d      ntske.Data
}

func planHours(p []int64) []int64 {
	out := make([]int64, len(p))
	for i, d := range p {
		out[i] = d / int64(time.Hour)
	}
	return out
}

func hBucket(ns int64) string {
	h := ns / int64(time.Hour)
	switch {
	case h == 0:
		return "0 h"
	case h <= 24:
		return "<= 24 h"
	default:
		return "24-48 h"
	}
}

func init() {
	Legs["c11server"] = func(args []string) {
		r := ev.NewLeg("C11")
		if r.Only() == "" || !strings.HasPrefix(r.Only(), "rot") {
			c11ServerLeg(r)
		}
		if r.Only() == "" || strings.HasPrefix(r.Only(), "rot") {
			c11Rotation(r, 11)
		}
		r.FinishLeg()
	}
	register("C11", "fault_enumeration", func(r *ev.Run) {
		c11ClientLeg(r)
		var env []string
		if r.Only() != "" {
			env = append(env, "VERIF_ONLY="+r.Only())
		}
		if r.Only() == "" || r.Only()[0] == 'b' || strings.HasPrefix(r.Only(), "rot") {
			if o := r.RunLeg("plain", "c11server", 20*time.Minute, env); !o.OK {
				r.Inconclusive("server leg did not finish: " + o.Stderr)
			}
		}
		r.Assume("cookies of 124 bytes, the size this project's servers issue; loopback; lost exchange = the peer withholds the response and the call times out")
		r.Assume("'opens under a currently valid server key to the same session keys' is observed behaviourally: every fresh cookie is spent in a later request, which the listener must answer under the same S2C key")
		r.Finish("leg A: the real IP client with NTS through every loss pattern of length L over {delivered, lost} (L=7 quick, 10 thorough; exhaustive) plus drains to an empty pool with re-keying and long random patterns; the scripted peer parses every request "+
			"(field types, cookie tag, placeholder count and body length, total length, authenticator) and tracks the pool level implied by what it issued and withheld. Oracle: no cookie twice, exactly one cookie field, 8 - level placeholder fields of type 0x0304, "+
			"length <= nts.MaxPacketLen at every level, request authenticates, delivered exchanges succeed, the pool never exceeds eight. leg B: the monitor as client of the real NTS-KE and NTP listeners with 1 cookie + 0..7 placeholders: reply <= nts.MaxPacketLen bytes, authenticates under S2C with the request's id, "+
			"carries the requested number of (or as many as fit) pairwise distinct fresh cookies, each accepted later. leg C: the listener process ages its keys (verif hook of the provider) by 1 h .. 100 h between exchanges: cookies issued <= 2 days ago served, cookies of keys generated > 3 days ago refused, "+
			"every cookie of a reply or key exchange sealed under a key generated <= 24 h before (key id = clear-text head of the cookie, key ages from the hook). distinct_nontrivial = distinct loss patterns and ageing plans", 8)
	})
}
