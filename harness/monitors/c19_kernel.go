package monitors

import (
	"bufio"
	"context"
	"encoding/json"
	"fmt"
	"io"
	"log/slog"
	"math"
	"math/rand/v2"
	"os"
	"os/exec"
	"path/filepath"
	"regexp"
	"strconv"
	"strings"
	"sync"
	"time"

	"golang.org/x/sys/unix"

	"example.com/scion-time/core/sync/adjustments"
	"example.com/scion-time/driver/clocks"

	"verif/harness/internal/ev"
)

// C19, kernel leg — what the real clock driver (driver/clocks.SystemClock) asks of the kernel.
//
// The driver is run in a child process under `strace -f -e trace=clock_adjtime
// -e inject=clock_adjtime:retval=0`: every clock_adjtime call is logged with its arguments and
// replaced by "success" before it reaches the kernel, so the sandbox's clock is never touched (the
// driver only ever writes: ADJ_SETOFFSET|ADJ_NANO and ADJ_FREQUENCY).  The child first makes a
// canary call that a real kernel refuses (tv_usec of 2e9 ns): only if that call "succeeds" is the
// injection known to be in place, otherwise the child stops before touching anything.
//
// Two kinds of children: scripted sequences of Step/Adjust calls in real time (adjustments that
// expire, are superseded, or are cut short by a step), and the real adjustments.Pll driving the
// real driver through its start-up sequence into tracking.  A recording wrapper between caller and
// driver reports every Step/Adjust; the oracle replays the reported calls against the strace log:
//
//   Adjust(offset, duration d, frequency f)  ->  ADJ_FREQUENCY(f + offset/d)
//   d later, unless superseded               ->  ADJ_FREQUENCY(f)            (never earlier than d)
//   Step(offset)                             ->  [ADJ_FREQUENCY(f) of the adjustment in progress,]
//                                                ADJ_SETOFFSET|ADJ_NANO(offset), sub-second part in [0, 1e9)
//   and the epoch grows by one per step.
//
// The only wall-clock judgement is a lower bound the correct driver cannot violate (a frequency is
// not restored before its duration has passed, both instants taken from strace's own clock); a
// restore that is still missing 30 s after it was due is a violation (the goroutine that owes it
// only has to wake up).

type c19kOp struct {
	Kind     string  `json:"op"` // "Step" | "Adjust" | "Update" (PLL mode)
	BeforeMs int     `json:"sleep_before_ms"`
	X        int64   `json:"offset_ns"`
	D        int64   `json:"duration_ns,omitempty"`
	F        float64 `json:"frequency,omitempty"`
	W        float64 `json:"weight,omitempty"`
}

type c19kScn struct {
	Mode string   `json:"mode"` // "driver" | "pll"
	Ops  []c19kOp `json:"ops"`
}

// a call the wrapper saw
type c19kCall struct {
	Kind  string  `json:"call"`
	X     int64   `json:"offset_ns"`
	D     int64   `json:"duration_ns,omitempty"`
	F     float64 `json:"frequency"`
	Epoch uint64  `json:"epoch_after"`
	Upd   int     `json:"during_update"` // index of the PLL update (or scripted op) that caused it
}

// a clock_adjtime call strace saw
type c19kSys struct {
	TS    float64 `json:"t"`
	Modes string  `json:"modes"`
	Freq  int64   `json:"freq"`
	Sec   int64   `json:"tv_sec"`
	Usec  int64   `json:"tv_usec"`
}

// ---- child

type c19kRec struct {
	clk *clocks.SystemClock
	mu  sync.Mutex
	upd int
	out io.Writer
}

func (c *c19kRec) Epoch() uint64                       { return c.clk.Epoch() }
func (c *c19kRec) Now() time.Time                      { return c.clk.Now() }
func (c *c19kRec) Drift(d time.Duration) time.Duration { return c.clk.Drift(d) }
func (c *c19kRec) Sleep(d time.Duration)               { c.clk.Sleep(d) }
func (c *c19kRec) report(call c19kCall) {
	call.Epoch = c.clk.Epoch()
	call.Upd = c.upd
	b, _ := json.Marshal(call)
	fmt.Fprintf(c.out, "CALL %s\n", b)
}
func (c *c19kRec) Step(offset time.Duration) {
	c.clk.Step(offset)
	c.report(c19kCall{Kind: "Step", X: int64(offset)})
}
func (c *c19kRec) Adjust(offset, duration time.Duration, frequency float64) {
	c.clk.Adjust(offset, duration, frequency)
	c.report(c19kCall{Kind: "Adjust", X: int64(offset), D: int64(duration), F: frequency})
}

type c19kSlowLog struct{}

func (c19kSlowLog) Enabled(context.Context, slog.Level) bool { return true }
func (c19kSlowLog) WithAttrs([]slog.Attr) slog.Handler       { return c19kSlowLog{} }
func (c19kSlowLog) WithGroup(string) slog.Handler            { return c19kSlowLog{} }
func (c19kSlowLog) Handle(_ context.Context, rec slog.Record) error {
	if rec.Message == "setting frequency" {
		time.Sleep(300 * time.Microsecond)
	}
	return nil
}

func c19kChild(args []string) {
	if len(args) != 1 {
		os.Exit(3)
	}
	b, err := os.ReadFile(args[0])
	var scn c19kScn
	if err != nil || json.Unmarshal(b, &scn) != nil {
		fmt.Println("BADSCENARIO")
		os.Exit(3)
	}
	// canary: refused by a real kernel (EINVAL, or EPERM), "successful" only under the injection
	tx := unix.Timex{Modes: unix.ADJ_SETOFFSET | unix.ADJ_NANO, Time: unix.Timeval{Sec: 0, Usec: 2_000_000_000}}
	if _, err := unix.ClockAdjtime(unix.CLOCK_REALTIME, &tx); err != nil {
		fmt.Println("NOINJECT", err)
		os.Exit(0)
	}
	fmt.Println("INJECTED")
	out := bufio.NewWriter(os.Stdout)
	// the driver logs every kernel write at debug level just before it makes it: a handler that takes
	// its time there is an injected delay at an existing hook point (harmless where the write happens under
	// the driver's lock, a widened window where it does not)
	rec := &c19kRec{clk: clocks.NewSystemClock(slog.New(c19kSlowLog{}), 0), out: out}
	var pll *adjustments.Pll
	if scn.Mode == "pll" {
		pll = adjustments.NewPLL(slog.New(slog.DiscardHandler), rec)
	}
	func() {
		defer func() {
			if p := recover(); p != nil {
				fmt.Fprintf(out, "PANIC %v\n", p)
			}
		}()
		for i, op := range scn.Ops {
			t0 := time.Now()
			time.Sleep(time.Duration(op.BeforeMs) * time.Millisecond)
			if late := time.Since(t0) - time.Duration(op.BeforeMs)*time.Millisecond; late > 100*time.Millisecond {
				fmt.Fprintf(out, "LATE %d\n", late.Milliseconds())
			}
			rec.upd = i
			switch op.Kind {
			case "Step":
				rec.Step(time.Duration(op.X))
			case "Adjust":
				rec.Adjust(time.Duration(op.X), time.Duration(op.D), op.F)
			case "Sleep": // the service's loop sleeps on the same clock between updates
				rec.clk.Sleep(time.Duration(op.D))
			case "Update":
				pll.Do(time.Duration(op.X), op.W)
			}
			out.Flush()
		}
	}()
	fmt.Fprintln(out, "IDLE")
	out.Flush()
	// stay alive (the goroutine that restores the frequency must get its chance) until told to go
	_, _ = bufio.NewReader(os.Stdin).ReadString('\n')
}

func init() { Legs["c19kernel"] = c19kChild }

// ---- oracle

// a call logged in one piece, or the second piece of one that strace logged in two ("<unfinished ...>"
// when another thread's event came in between: the arguments are on the "resumed" line)
var c19kRe = regexp.MustCompile(`^\d+\s+(\d+\.\d+)\s+(?:clock_adjtime\(CLOCK_REALTIME, |<\.\.\. clock_adjtime resumed>)\{modes=([A-Z_|0-9x]+), .*?freq=(-?\d+), .*?time=\{tv_sec=(-?\d+), tv_usec=(-?\d+)\}`)

func c19kParse(log string) (sys []c19kSys) {
	for _, ln := range strings.Split(log, "\n") {
		m := c19kRe.FindStringSubmatch(ln)
		if m == nil {
			continue
		}
		s := c19kSys{Modes: m[2]}
		s.TS, _ = strconv.ParseFloat(m[1], 64)
		s.Freq, _ = strconv.ParseInt(m[3], 10, 64)
		s.Sec, _ = strconv.ParseInt(m[4], 10, 64)
		s.Usec, _ = strconv.ParseInt(m[5], 10, 64)
		sys = append(sys, s)
	}
	if len(sys) > 0 && sys[0].Usec == 2_000_000_000 {
		sys = sys[1:] // the canary
	}
	return sys
}

type c19kPend struct {
	after float64 // frequency to restore
	dur   float64 // whole seconds
	setTS float64
	call  int
}

func c19kIsFreq(s c19kSys, f float64) bool {
	want := f * 65536e6
	return s.Modes == "ADJ_FREQUENCY" && math.Abs(float64(s.Freq)-want) <= 1.0+math.Abs(want)*1e-12
}

func c19kIsStep(s c19kSys, x int64) bool {
	if s.Modes != "ADJ_SETOFFSET|ADJ_NANO" || s.Usec < 0 || s.Usec >= 1e9 {
		return false
	}
	hi := s.Sec*1e9 + s.Usec // |x| < 2^62 in the scenarios
	return hi == x
}

type c19kVerdict struct {
	ok      bool
	pending bool   // only a restore is still owed
	reason  string // signature fragment
	detail  map[string]any
	classes map[string]int
}

// c19kJudge replays the reported calls against the kernel calls seen.  final: the child was idle
// long enough for every owed restore.
func c19kJudge(calls []c19kCall, sys []c19kSys, final bool, maxLate float64) c19kVerdict {
	const eps = 0.002 // strace stamps a call when it is entered; 2 ms for the float arithmetic on epoch seconds
	type fail struct {
		ci, si int
		reason string
		detail map[string]any
	}
	var best *fail
	note := func(ci, si int, reason string, detail map[string]any) {
		if best == nil || si > best.si || si == best.si && ci > best.ci {
			best = &fail{ci, si, reason, detail}
		}
	}
	var winCls map[string]int
	pendingAtEnd := false
	var rec func(ci, si int, pend *c19kPend, cur int64, cls []string) bool
	rec = func(ci, si int, pend *c19kPend, cur int64, cls []string) bool {
		if ci == len(calls) && si == len(sys) {
			if pend != nil && final {
				note(ci, si, "frequency of an adjustment not restored after its duration", map[string]any{"adjust_call": pend.call, "frequency_to_restore": pend.after, "duration_s": pend.dur})
				return false
			}
			pendingAtEnd = pend != nil
			winCls = map[string]int{}
			for _, c := range cls {
				winCls[c]++
			}
			return true
		}
		// (R) a call that sets the frequency already in force changes nothing (the driver restores the
		// frequency of an adjustment that has already expired once more when a step follows)
		if pend == nil && si < len(sys) && sys[si].Modes == "ADJ_FREQUENCY" && sys[si].Freq == cur {
			if rec(ci, si+1, nil, cur, append(cls, "redundant:frequency-in-force-set-again")) {
				return true
			}
		}
		// (A) the frequency of the adjustment in progress is restored
		if pend != nil && si < len(sys) && c19kIsFreq(sys[si], pend.after) {
			elapsed := sys[si].TS - pend.setTS
			if elapsed >= pend.dur-eps {
				if maxLate >= 0 && elapsed > pend.dur+maxLate {
					note(ci, si, "frequency of an adjustment restored long after its duration had passed", map[string]any{"adjust_call": pend.call, "elapsed_s": elapsed, "duration_s": pend.dur})
				} else if rec(ci, si+1, nil, sys[si].Freq, append(cls, "restore:after-the-duration")) {
					return true
				}
			}
			if ci < len(calls) && calls[ci].Kind == "Step" && si+1 < len(sys) && c19kIsStep(sys[si+1], calls[ci].X) {
				if rec(ci+1, si+2, nil, sys[si].Freq, append(cls, "restore:by-a-step-that-cuts-the-adjustment-short", "step:during-adjustment")) {
					return true
				}
			}
			if elapsed < pend.dur-eps && !(ci < len(calls) && calls[ci].Kind == "Adjust" && c19kIsFreq(sys[si], calls[ci].F+float64(calls[ci].X)/1e9/c19kDur(calls[ci].D))) {
				note(ci, si, "frequency restored before the adjustment's duration had passed", map[string]any{"adjust_call": pend.call, "elapsed_s": elapsed, "duration_s": pend.dur})
			}
		}
		if ci == len(calls) {
			if si < len(sys) {
				note(ci, si, "kernel call that no request accounts for", map[string]any{"kernel_call": sys[si]})
			}
			return false
		}
		c := calls[ci]
		if si == len(sys) {
			note(ci, si, "no kernel call for a request", map[string]any{"request": c})
			return false
		}
		s := sys[si]
		switch c.Kind {
		case "Adjust":
			d := c19kDur(c.D)
			if c19kIsFreq(s, c.F+float64(c.X)/1e9/d) {
				k := "adjust"
				if pend != nil {
					k = "adjust:supersedes-an-adjustment-in-progress"
				}
				return rec(ci+1, si+1, &c19kPend{after: c.F, dur: d, setTS: s.TS, call: ci}, s.Freq, append(cls, k))
			}
			if s.Modes == "ADJ_FREQUENCY" {
				note(ci, si, "frequency asked of the kernel is not frequency + offset/duration", map[string]any{"request": c, "kernel_call": s, "want_scaled_ppm": (c.F + float64(c.X)/1e9/d) * 65536e6})
			} else {
				note(ci, si, "kernel call that no request accounts for", map[string]any{"request": c, "kernel_call": s})
			}
		case "Step":
			if c19kIsStep(s, c.X) {
				if pend != nil {
					note(ci, si, "step during an adjustment did not restore the frequency first", map[string]any{"request": c, "adjust_call": pend.call, "frequency_to_restore": pend.after})
					return false
				}
				return rec(ci+1, si+1, nil, cur, append(cls, "step:no-adjustment-in-progress"))
			}
			if strings.HasPrefix(s.Modes, "ADJ_SETOFFSET") {
				note(ci, si, "kernel asked to step by another amount than requested (or not in normalised nanosecond form)", map[string]any{"request": c, "kernel_call": s})
			} else {
				note(ci, si, "kernel call that no request accounts for", map[string]any{"request": c, "kernel_call": s})
			}
		}
		return false
	}
	if rec(0, 0, nil, math.MinInt64, nil) {
		return c19kVerdict{ok: true, pending: pendingAtEnd, classes: winCls}
	}
	v := c19kVerdict{reason: best.reason, detail: best.detail}
	v.detail["at_request"], v.detail["at_kernel_call"] = best.ci, best.si
	v.pending = strings.HasPrefix(best.reason, "frequency of an adjustment not restored") || best.reason == "no kernel call for a request"
	return v
}

func c19kDur(d int64) float64 { // as the driver rounds it; the scenarios only use whole seconds >= 1
	s := d / int64(time.Second)
	if s < 1 {
		s = 1
	}
	return float64(s)
}

// ---- scenarios

func c19kGen(rng *rand.Rand, k int) c19kScn {
	if k%4 == 3 {
		// the real PLL on the real driver: start-up (2 s), step, start-up again (the step opened a new
		// epoch), 6 s of waiting, tracking
		s := c19kScn{Mode: "pll"}
		big := c17Sign(rng) * (2*c19Ms + rng.Int64N(50*c19Ms))
		w := 10 + rng.Float64()*300
		add := func(ms int, off int64) { s.Ops = append(s.Ops, c19kOp{Kind: "Update", BeforeMs: ms, X: off, W: w}) }
		add(0, big)
		add(1100, big)
		add(1100, big) // > 2 s: step by exactly big
		small := func() int64 { return c17Sign(rng) * rng.Int64N(900000) }
		add(300, small())  // first update of the new epoch
		add(2200, small()) // > 2 s, small offset: no step
		for i := 0; i < 4; i++ {
			add(1600, small())
		} // > 6 s later: tracking begins
		for i := 0; i < 3; i++ {
			add(1000+rng.IntN(900), c17Sign(rng)*c17LogU(rng, 1e4, 4e7))
		}
		add(700+rng.IntN(600), 0) // a measured offset of exactly zero while the previous slew is still under way
		return s
	}
	s := c19kScn{Mode: "driver"}
	n := 5 + rng.IntN(4)
	used := map[int64]bool{}
	for i := 0; i < n; i++ {
		op := c19kOp{BeforeMs: []int{0, 150, 400, 1300, 2400}[rng.IntN(5)]}
		if rng.IntN(3) == 0 {
			op.Kind = "Step"
			op.X = c17Sign(rng) * c17LogU(rng, 1, 4e18)
			if rng.IntN(4) == 0 {
				op.X = []int64{1, -1, 999999999, -999999999, 1000000000, -1000000000, 1000000001, -1000000001, -1500000000}[rng.IntN(9)]
			}
		} else {
			op.Kind = "Adjust"
			op.D = int64(1+rng.IntN(2)) * int64(time.Second)
			for { // frequencies that tell the calls apart in the log
				op.F = c17Sign64(rng) * float64(1+rng.IntN(400)) * 1e-7
				op.X = c17Sign(rng) * c17LogU(rng, 1000, 400000) * (op.D / int64(time.Second))
				a, b := int64(op.F*65536e6), int64((op.F+float64(op.X)/float64(op.D))*65536e6)
				if !used[a/4] && !used[b/4] && a/4 != b/4 {
					used[a/4], used[b/4] = true, true
					break
				}
			}
		}
		s.Ops = append(s.Ops, op)
		if op.Kind == "Adjust" && rng.IntN(3) == 0 {
			// the next update arrives at the very moment the adjustment ends (the time between updates is a
			// whole number of seconds)
			nx := c19kOp{Kind: "Adjust", BeforeMs: int(op.D / int64(time.Millisecond)), D: int64(1+rng.IntN(2)) * int64(time.Second)}
			for {
				nx.F = c17Sign64(rng) * float64(1+rng.IntN(400)) * 1e-7
				nx.X = c17Sign(rng) * c17LogU(rng, 1000, 400000) * (nx.D / int64(time.Second))
				a, b := int64(nx.F*65536e6), int64((nx.F+float64(nx.X)/float64(nx.D))*65536e6)
				if !used[a/4] && !used[b/4] && a/4 != b/4 {
					used[a/4], used[b/4] = true, true
					break
				}
			}
			s.Ops = append(s.Ops, nx)
			op = nx
		} else if op.Kind == "Adjust" && rng.IntN(4) == 0 {
			// the loop that drives the discipline sleeps on the same clock while the slew is under way
			s.Ops = append(s.Ops, c19kOp{Kind: "Sleep", BeforeMs: 100, D: op.D + int64(time.Second) + int64(rng.IntN(800))*int64(time.Millisecond)})
		}
		if op.Kind == "Adjust" && rng.IntN(4) == 0 {
			// nothing left to slew, same base frequency, while the slew just asked for is still under way
			s.Ops = append(s.Ops, c19kOp{Kind: "Adjust", BeforeMs: []int{0, 200, 600}[rng.IntN(3)], X: 0, D: int64(1+rng.IntN(2)) * int64(time.Second), F: op.F})
		}
	}
	n = len(s.Ops)
	if s.Ops[n-1].Kind != "Adjust" { // end on an adjustment that has to expire by itself
		s.Ops = append(s.Ops, c19kOp{Kind: "Adjust", BeforeMs: 200, X: 250000, D: int64(time.Second), F: 7.7e-5})
	}
	return s
}

func c17Sign64(rng *rand.Rand) float64 { return float64(c17Sign(rng)) }

// ---- parent

type c19kRun struct {
	scn    c19kScn
	calls  []c19kCall
	sys    []c19kSys
	status string // "" | "noinject" | "timeout" | "panic: ..." | "error: ..."
	late   bool   // the child's own sleeps overran by more than 100 ms somewhere: the machine is busy
	log    string
}

func c19kRunChild(dir string, k int, scn c19kScn) (out c19kRun) {
	out.scn = scn
	bin := os.Getenv("VERIF_MON_PLAIN")
	if bin == "" {
		bin = os.Args[0]
	}
	sf := filepath.Join(dir, fmt.Sprintf("c19k-%d.json", k))
	lf := filepath.Join(dir, fmt.Sprintf("c19k-%d.strace", k))
	b, _ := json.Marshal(scn)
	if err := os.WriteFile(sf, b, 0o644); err != nil {
		out.status = "error: " + err.Error()
		return
	}
	cmd := exec.Command("strace", "-f", "-ttt", "-v", "-e", "trace=clock_adjtime", "-e", "inject=clock_adjtime:retval=0", "-o", lf, bin, "leg", "c19kernel", sf)
	stdin, err1 := cmd.StdinPipe()
	stdout, err2 := cmd.StdoutPipe()
	if err1 != nil || err2 != nil {
		out.status = "error: pipes"
		return
	}
	if err := cmd.Start(); err != nil {
		out.status = "error: " + err.Error()
		return
	}
	lines := make(chan string, 256)
	go func() {
		sc := bufio.NewScanner(stdout)
		for sc.Scan() {
			lines <- sc.Text()
		}
		close(lines)
	}()
	finish := func() {
		_, _ = io.WriteString(stdin, "\n")
		_ = stdin.Close()
		done := make(chan struct{})
		go func() { _ = cmd.Wait(); close(done) }()
		select {
		case <-done:
		case <-time.After(10 * time.Second):
			_ = cmd.Process.Kill()
			<-done
		}
		if lb, err := os.ReadFile(lf); err == nil {
			out.log = string(lb)
			out.sys = c19kParse(out.log)
		}
	}
	watchdog := time.After(120 * time.Second)
	idle := false
	for !idle {
		select {
		case ln, ok := <-lines:
			switch {
			case !ok:
				out.status = "error: child ended early"
				finish()
				return
			case strings.HasPrefix(ln, "NOINJECT"):
				out.status = "noinject"
				finish()
				return
			case strings.HasPrefix(ln, "CALL "):
				var c c19kCall
				if json.Unmarshal([]byte(ln[5:]), &c) == nil {
					out.calls = append(out.calls, c)
				}
			case strings.HasPrefix(ln, "LATE "):
				out.late = true
			case strings.HasPrefix(ln, "PANIC "):
				out.status = "panic: " + ln[6:]
			case ln == "IDLE":
				idle = true
			}
		case <-watchdog:
			out.status = "timeout"
			_ = cmd.Process.Kill()
			finish()
			return
		}
	}
	// wait for the restore that may still be owed: as long as that is all that is missing, up to 30 s
	for t0 := time.Now(); time.Since(t0) < 30*time.Second; time.Sleep(100 * time.Millisecond) {
		lb, err := os.ReadFile(lf)
		if err != nil {
			continue
		}
		v := c19kJudge(out.calls, c19kParse(string(lb)), true, -1)
		if v.ok || !v.pending {
			break
		}
	}
	finish()
	return
}

// c19Kernel runs the kernel leg and merges its verdicts into r.
func c19Kernel(r *ev.Run) {
	if _, err := exec.LookPath("strace"); err != nil {
		r.Set("kernel_leg", "not run: strace not found")
		return
	}
	dir := os.Getenv("VERIF_SCRATCH")
	if dir == "" {
		dir = os.TempDir()
	}
	n := r.Pick(8, 48)
	only := r.Only()
	res := make([]c19kRun, n)
	var wg sync.WaitGroup
	sem := make(chan struct{}, 16)
	for k := 0; k < n; k++ {
		if only != "" && only != fmt.Sprintf("kernel%d", k) {
			continue
		}
		wg.Add(1)
		go func(k int) {
			defer wg.Done()
			sem <- struct{}{}
			defer func() { <-sem }()
			res[k] = c19kRunChild(dir, k, c19kGen(r.Rng(fmt.Sprintf("c19k/%d", k)), k))
		}(k)
	}
	wg.Wait()
	noinject, nsys := 0, 0
	for k, rr := range res {
		if rr.scn.Mode == "" {
			continue
		}
		id := fmt.Sprintf("kernel%d", k)
		w := map[string]any{"scenario": rr.scn, "calls_reported_by_the_wrapper": rr.calls, "kernel_calls_seen_by_strace": rr.sys}
		switch {
		case rr.status == "noinject":
			noinject++
			continue
		case rr.status == "timeout" || strings.HasPrefix(rr.status, "error"):
			r.Inconclusive("C19 kernel leg " + id + ": " + rr.status)
			continue
		case strings.HasPrefix(rr.status, "panic"):
			w["panic"] = rr.status
			r.Violation("SystemClock|panic|"+rr.scn.Mode+" scenario", id, w)
			continue
		}
		r.Eval(int64(len(rr.calls)))
		nsys += len(rr.sys)
		// a restore more than 1.5 s overdue is judged only if the child's own sleeps were on time
		maxLate := 1.5
		if rr.late {
			maxLate = -1
			r.Class("kernel:machine busy (lateness of restores not judged)")
		}
		v := c19kJudge(rr.calls, rr.sys, true, maxLate)
		if !v.ok {
			for key, val := range v.detail {
				w[key] = val
			}
			w["strace_log"] = strings.Split(rr.log, "\n")
			r.Violation("SystemClock|wrong-call:"+v.reason+"|"+rr.scn.Mode+" scenario", id, w)
			continue
		}
		for c, nn := range v.classes {
			r.ClassN("kernel:"+c, int64(nn))
		}
		// epochs: a step opens a new epoch (the value never seen before in this process), nothing else does
		seen := map[uint64]bool{0: true}
		bad := false
		for i, c := range rr.calls {
			if (c.Kind == "Step") == seen[c.Epoch] && !bad {
				w["at_request"] = i
				r.Violation("SystemClock|state:a step does not open a new epoch, or something else does|"+rr.scn.Mode+" scenario", id, w)
				bad = true
			}
			seen[c.Epoch] = true
		}
		if rr.scn.Mode == "pll" && !bad {
			c19kPLL(r, id, rr, w)
		}
		r.Distinct(fmt.Sprint(rr.scn.Mode, v.classes))
		if k < 2 || k == 3 {
			r.Sample(map[string]any{"case": id, "scenario": rr.scn, "calls": rr.calls, "kernel_calls": rr.sys})
		}
	}
	r.Set("kernel_leg_clock_adjtime_calls_observed", nsys)
	r.Assume("kernel leg: clock_adjtime is logged and answered by strace's syscall injection (the kernel clock is never changed; a canary call a real kernel refuses must succeed first); real time with whole-second durations of 1..2 s; kernel frequency compared within 1 unit of 2^-16 ppm; " +
		"a restore is a violation when earlier than its duration (strace's own clock, 2 ms slack), when still missing 30 s after it was due, or — only if the child's own sleeps overran by less than 100 ms — when more than 1.5 s late; a 300 us delay is injected at the driver's debug-log call in front of each kernel write")
	if noinject > 0 {
		r.Set("kernel_leg", fmt.Sprintf("not run in %d children: the canary call was not intercepted (no strace injection here)", noinject))
	}
}

// c19kPLL checks the statement's clauses on what the real PLL asked of the real driver.
func c19kPLL(r *ev.Run, id string, rr c19kRun, w map[string]any) {
	steps := 0
	for _, c := range rr.calls {
		u := rr.scn.Ops[c.Upd]
		switch c.Kind {
		case "Step":
			steps++
			if c.X != u.X {
				r.Violation("Pll.Do+SystemClock|wrong-value:step amount differs from the measured offset|real driver", id, w)
				return
			}
		case "Adjust":
			lim := float64(c.D/int64(time.Second)) * 500000
			if c.D <= 0 || c.D%int64(time.Second) != 0 || math.Abs(float64(c.X)) > lim*(1+1e-15)+1 || math.IsNaN(c.F) || math.IsInf(c.F, 0) {
				r.Violation("Pll.Do+SystemClock|wrong-value:adjustment outside 500 ppm x whole seconds, or not finite|real driver", id, w)
				return
			}
		}
	}
	adj := 0
	for _, c := range rr.calls {
		if c.Kind == "Adjust" {
			adj++
		}
	}
	switch {
	case steps == 1 && adj > 0:
		r.Class("kernel:pll-on-real-driver:step,new-epoch,start-up-again,tracking")
	case steps == 1:
		r.Class("kernel:pll-on-real-driver:step,new-epoch,start-up-again")
	case steps > 1:
		r.Violation("Pll.Do+SystemClock|wrong-value:second step although the offsets after the first were below 1 ms|real driver", id, w)
	default:
		r.Class("kernel:pll-on-real-driver:no-step (updates slower than scheduled)")
	}
}
