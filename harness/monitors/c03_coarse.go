package monitors

// C03 with a coarse client clock (seed C03-k): the client's clock returns the same reading for calls
// less than a quantum apart (as CLOCK_REALTIME_COARSE does), the kernel transmit timestamp of a
// request is not delivered in time (failpoint of net/udp), so the client falls back on a clock
// reading taken before the send — which must differ from the transmit timestamp the request
// carried, or a duplicate of this exchange's response passes for the response to the next,
// interleaved request.  The scripted server steps its clock after every exchange and the network
// delivers a duplicate of the previous response in front of every genuine one.
//
// Every exchange lasts longer than the quantum (the server's processing time), so readings of different
// exchanges differ and only readings within one exchange coincide.
//
// Own process (leg): the clock can be registered once per process only.
//
// Oracle, per call of the filter (the four timestamps the client combined): the server's offset was
// theta_k from the moment request k was received until request k+1 was received, and the filter
// is called between the two; so |offset(t0,t1,t2,t3) - theta_k| <= rtd/2 + 2 quanta (+1 ms for the
// server's own readings, which are taken from the fine clock).  A failed exchange is not judged.

import (
	"context"
	"fmt"
	"log/slog"
	"math/rand/v2"
	"net"
	"sync"
	"sync/atomic"
	"time"

	"example.com/scion-time/core/client"
	"example.com/scion-time/core/timebase"
	"example.com/scion-time/net/ntp"
	"example.com/scion-time/net/udp"

	"verif/harness/internal/ev"
)

type c03cClock struct {
	mu      sync.Mutex
	last    time.Time
	quantum time.Duration
}

func (c *c03cClock) Now() time.Time {
	c.mu.Lock()
	defer c.mu.Unlock()
	now := time.Now().UTC()
	if c.last.IsZero() || now.Sub(c.last) >= c.quantum || now.Before(c.last) {
		c.last = now
	}
	return c.last
}
func (c *c03cClock) setQuantum(q time.Duration) { c.mu.Lock(); c.quantum = q; c.mu.Unlock() }
func (c *c03cClock) Epoch() uint64              { return 0 }
func (c *c03cClock) Drift(time.Duration) time.Duration {
	return 0
}
func (c *c03cClock) Step(time.Duration)                           { panic("not used") }
func (c *c03cClock) Adjust(time.Duration, time.Duration, float64) { panic("not used") }
func (c *c03cClock) Sleep(d time.Duration)                        { time.Sleep(d) }

type c03cRec struct {
	mu    sync.Mutex
	theta *atomic.Int64
	all   [][4]time.Time
	th    []time.Duration
}

func (r *c03cRec) Do(t0, t1, t2, t3 time.Time) time.Duration {
	r.mu.Lock()
	r.all = append(r.all, [4]time.Time{t0, t1, t2, t3})
	r.th = append(r.th, time.Duration(r.theta.Load()))
	r.mu.Unlock()
	return ntp.ClockOffset(t0, t1, t2, t3)
}
func (r *c03cRec) Reset() {}

func init() {
	Legs["c03coarse"] = func(args []string) {
		r := ev.NewLeg("C03")
		clk := &c03cClock{quantum: 2 * time.Millisecond}
		timebase.RegisterClock(clk)
		rng := rand.New(rand.NewPCG(uint64(r.Seed()), 0xc03c))
		nHist := 6
		if r.Thorough() {
			nHist = 40
		}
		for h := 0; h < nHist; h++ {
			q := []time.Duration{2 * time.Millisecond, 500 * time.Microsecond, 4 * time.Millisecond, 1}[h%4]
			clk.setQuantum(q)
			c03cHistory(r, rng, h, q)
			if r.NumViolations() > 3 {
				break
			}
		}
		r.FinishLeg()
	}
}

func c03cHistory(r *ev.Run, rng *rand.Rand, h int, quantum time.Duration) {
	log := slog.New(slog.DiscardHandler)
	srvIP := net.IPv4(127, 0, 0, 1)
	conn, err := net.ListenUDP("udp", &net.UDPAddr{IP: srvIP})
	if err != nil {
		r.Class("coarse-clock:no socket")
		return
	}
	defer conn.Close()
	srvPort := conn.LocalAddr().(*net.UDPAddr).Port
	var theta atomic.Int64
	theta.Store(int64(time.Second) * int64(1+rng.IntN(5)))
	step := time.Duration(3+rng.IntN(20)) * time.Second
	if rng.IntN(2) == 0 {
		step = -step
	}
	dupFirst := rng.IntN(4) != 0 // else the duplicate follows the genuine response
	var nReq atomic.Int32
	go func() {
		var prev []byte
		buf := make([]byte, 2048)
		for {
			n, src, err := conn.ReadFromUDPAddrPort(buf)
			if err != nil {
				return
			}
			var req, resp ntp.Packet
			if ntp.DecodePacket(&req, buf[:n]) != nil {
				continue
			}
			if nReq.Add(1) > 1 {
				theta.Add(int64(step)) // the server's clock was stepped since the previous exchange
			}
			th := time.Duration(theta.Load())
			rxt := time.Now().UTC().Add(th)
			resp.SetVersion(ntp.VersionMax)
			resp.SetMode(ntp.ModeServer)
			resp.Stratum = 1
			resp.OriginTime = req.TransmitTime
			resp.ReceiveTime = ntp.Time64FromTime(rxt)
			if prev != nil && dupFirst {
				_, _ = conn.WriteToUDPAddrPort(prev, src)
			}
			// every exchange lasts longer than the clock's quantum, so that the next one starts from a fresh
			// reading: two *exchanges* that read the same time send indistinguishable requests, which is
			// outside what C03 states (see DESIGN.md section 10) — equal readings *within* an exchange are the point
			time.Sleep(quantum + 2*time.Millisecond)
			resp.TransmitTime = ntp.Time64FromTime(time.Now().UTC().Add(th))
			var out []byte
			ntp.EncodePacket(&out, &resp)
			_, _ = conn.WriteToUDPAddrPort(out, src)
			if prev != nil && !dupFirst {
				_, _ = conn.WriteToUDPAddrPort(prev, src)
			}
			prev = out
		}
	}()

	rec := &c03cRec{theta: &theta}
	c := &client.IPClient{Log: log, InterleavedMode: true, Filter: rec}
	laddr := &net.UDPAddr{IP: srvIP}
	raddr := &net.UDPAddr{IP: srvIP, Port: srvPort}
	nCalls := 3 + rng.IntN(3)
	var script []string
	for call := 0; call < nCalls; call++ {
		time.Sleep(2*quantum + time.Duration(rng.IntN(3))*time.Millisecond) // start from a fresh clock reading
		late := 0
		if call == 0 || rng.IntN(2) == 0 {
			late = 1 + rng.IntN(2)
		}
		udp.VerifLateTXTimestamps(late)
		ctx, cancel := context.WithTimeout(context.Background(), 2*time.Second)
		var off time.Duration
		var e error
		pnc := c02Recover(func() { _, off, e = client.MeasureClockOffsetIP(ctx, log, c, laddr, raddr) })
		cancel()
		udp.VerifLateTXTimestamps(0)
		r.Eval(1)
		script = append(script, fmt.Sprintf("call %d: late-tx=%d offset=%v err=%v", call, late, off, e))
		if pnc != nil {
			r.Violation("ip-client(interleaved,coarse clock)|panic|measurement", fmt.Sprintf("coarse-%d", h), map[string]any{"panic": fmt.Sprint(pnc), "script": script})
			return
		}
		if late > 0 {
			r.Class(fmt.Sprintf("coarse-clock(quantum %v):kernel transmit timestamp not delivered in time", quantum))
		}
	}
	rec.mu.Lock()
	defer rec.mu.Unlock()
	if len(rec.all) == 0 {
		r.Class("coarse-clock:no exchange evaluated")
		return
	}
	for i, ts := range rec.all {
		off := ntp.ClockOffset(ts[0], ts[1], ts[2], ts[3])
		rtd := ntp.RoundTripDelay(ts[0], ts[1], ts[2], ts[3])
		if rtd < 0 {
			rtd = -rtd
		}
		bound := rtd/2 + 2*quantum + time.Millisecond
		if d := (off - rec.th[i]).Abs(); d > bound {
			r.Violation("ip-client(interleaved,coarse clock)|wrong-value:timestamps of two exchanges combined: a duplicate of the previous response was taken for the response to an interleaved request (fall-back transmit reading equal to the transmit timestamp the request carried)",
				fmt.Sprintf("coarse-%d", h), map[string]any{"quantum_ns": int64(quantum), "evaluation": i, "offset_ns": int64(off), "true_offset_ns": int64(rec.th[i]), "error_ns": int64(off - rec.th[i]),
					"bound_ns": int64(bound), "t0": ts[0].String(), "t1": ts[1].String(), "t2": ts[2].String(), "t3": ts[3].String(), "server_clock_step_ns": int64(step), "duplicate_first": dupFirst, "script": script})
			return
		}
	}
	r.Class(fmt.Sprintf("coarse-clock(quantum %v, duplicate %s):every evaluated exchange within half its round trip of the server's offset at the time", quantum, map[bool]string{true: "before", false: "after"}[dupFirst]))
}
