package monitors

import (
	"bytes"
	"encoding/binary"
	"encoding/hex"
	"fmt"
	"math/rand/v2"
	"os"
	"os/exec"
	"runtime"
	"strconv"
	"strings"
	"sync"
	"sync/atomic"
	"time"

	"example.com/scion-time/net/ntp"
	"example.com/scion-time/net/nts"
	"example.com/scion-time/net/ntske"

	"verif/harness/internal/ev"
)

// C10 — NTS authentication soundness.
//
// The monitor builds requests, responses and cookies with the project's own
// encoders, checks that they are accepted (completeness), and then presents
// every single-bit and a set of single-field mutations of the encoded bytes to
// the same sequence of calls the listeners make.  The harness knows the layout
// it asked the encoder for and classifies every byte as authenticated, nonce,
// ciphertext or unauthenticated framing; a mutation of the first three must be
// rejected with an error.  Every call runs under recover and a watchdog: a
// panic or a hang is "not rejected cleanly" and is reported with its own
// signature.

const c10Watchdog = 10 * time.Second

// ---------------------------------------------------------------------------
// acceptance, mirrored from core/server/server_ip.go and core/client/client_ip.go

type c10Provider map[uint16][]byte // key id -> key, what ntske.Provider.Get does

type c10Res struct {
	ok     bool
	stage  string // the call that rejected, panicked or hung
	err    string
	panicV any
	hung   bool
	cookie ntske.ServerCookie
}

func (x c10Res) String() string {
	switch {
	case x.hung:
		return "hang in " + x.stage
	case x.panicV != nil:
		return "panic in " + x.stage + ": " + fmt.Sprint(x.panicV)
	case x.ok:
		return "accepted"
	}
	return "rejected by " + x.stage + ": " + x.err
}

// c10Server runs the server's acceptance sequence on a datagram.  verifyKey,
// when non-nil, replaces the C2S key taken from the cookie (direction tests).
func c10Server(buf []byte, prov c10Provider, verifyKey []byte, stage *string) (res c10Res) {
	rej := func(e string) c10Res { res.err = e; return res }
	*stage = "ntp.DecodePacket"
	var hdr ntp.Packet
	if err := ntp.DecodePacket(&hdr, buf); err != nil {
		return rej(err.Error())
	}
	*stage = "nts.DecodePacket"
	var p nts.Packet
	if err := nts.DecodePacket(&p, buf); err != nil {
		return rej(err.Error())
	}
	*stage = "nts.Packet.FirstCookie"
	c, err := p.FirstCookie()
	if err != nil {
		return rej(err.Error())
	}
	*stage = "ntske.EncryptedServerCookie.Decode"
	var ec ntske.EncryptedServerCookie
	if err := ec.Decode(c); err != nil {
		return rej(err.Error())
	}
	*stage = "key lookup"
	key, ok := prov[ec.ID]
	if !ok {
		return rej("no key with this id")
	}
	*stage = "ntske.EncryptedServerCookie.Decrypt"
	sc, err := ec.Decrypt(key)
	if err != nil {
		return rej(err.Error())
	}
	res.cookie = sc
	*stage = "nts.ProcessRequest"
	k := sc.C2S
	if verifyKey != nil {
		k = verifyKey
	}
	if err := nts.ProcessRequest(buf, k, &p); err != nil {
		return rej(err.Error())
	}
	res.ok = true
	return res
}

// c10Client runs the client's acceptance sequence on a datagram.
func c10Client(buf []byte, key, reqID []byte, stage *string) (res c10Res) {
	rej := func(e string) c10Res { res.err = e; return res }
	*stage = "ntp.DecodePacket"
	var hdr ntp.Packet
	if err := ntp.DecodePacket(&hdr, buf); err != nil {
		return rej(err.Error())
	}
	*stage = "nts.DecodePacket"
	var p nts.Packet
	if err := nts.DecodePacket(&p, buf); err != nil {
		return rej(err.Error())
	}
	*stage = "nts.ProcessResponse"
	var f ntske.Fetcher
	if err := nts.ProcessResponse(buf, key, &f, &p, reqID); err != nil {
		return rej(err.Error())
	}
	res.ok = true
	return res
}

// c10Cookie runs the server's cookie opening sequence.
func c10Cookie(c []byte, prov c10Provider, stage *string) (res c10Res) {
	rej := func(e string) c10Res { res.err = e; return res }
	*stage = "ntske.EncryptedServerCookie.Decode"
	var ec ntske.EncryptedServerCookie
	if err := ec.Decode(c); err != nil {
		return rej(err.Error())
	}
	*stage = "key lookup"
	key, ok := prov[ec.ID]
	if !ok {
		return rej("no key with this id")
	}
	*stage = "ntske.EncryptedServerCookie.Decrypt"
	sc, err := ec.Decrypt(key)
	if err != nil {
		return rej(err.Error())
	}
	res.cookie = sc
	res.ok = true
	return res
}

// c10Guard runs f under recover in its own goroutine with a watchdog.
// c10Stalls counts calls whose watchdog fired although the call, repeated, returned: the process was
// stalled (a loaded machine), the call does not hang.
var c10Stalls atomic.Int64

// c10Guard runs a pure CPU call under recover and a watchdog.  A call that hangs does so on every run
// (the calls are deterministic functions of their input), so the verdict "hang" needs the watchdog
// to fire twice: 10 s, then 60 s on a repetition; a repetition that returns decides the case.
func c10Guard(f func(stage *string) c10Res) c10Res {
	r := c10GuardOnce(f, c10Watchdog)
	if r.hung {
		if r2 := c10GuardOnce(f, 6*c10Watchdog); !r2.hung {
			c10Stalls.Add(1)
			return r2
		}
	}
	return r
}

func c10GuardOnce(f func(stage *string) c10Res, watchdog time.Duration) c10Res {
	stage := new(string)
	done := make(chan c10Res, 1)
	go func() {
		defer func() {
			if p := recover(); p != nil {
				done <- c10Res{stage: *stage, panicV: p}
			}
		}()
		r := f(stage)
		r.stage = *stage
		done <- r
	}()
	t := time.NewTimer(watchdog)
	defer t.Stop()
	select {
	case r := <-done:
		return r
	case <-t.C:
		return c10Res{stage: *stage, hung: true} // the stuck goroutine no longer writes it
	}
}

// ---------------------------------------------------------------------------
// layout the harness asked the encoder for

type c10Span struct {
	Lo, Hi int
	Class  string // input class used in signatures
	Must   bool   // a change here must be rejected (authenticated, nonce or ciphertext)
	Kind   string // "authenticated" | "nonce" | "ciphertext" | "framing"
	Word   bool   // a 16-bit type/length word (gets field mutations)
}

const (
	c10CookieLen = 124
)

// c10CookieSpans: the TLV layout of a project cookie starting at offset o.
func c10CookieSpans(o int, kind string, must bool) []c10Span {
	k := kind
	return []c10Span{
		{o, o + 2, "cookie TLV type mutated", must, k, true},
		{o + 2, o + 4, "cookie TLV length mutated", must, k, true},
		{o + 4, o + 6, "cookie key id mutated", must, k, true},
		{o + 6, o + 8, "cookie TLV type mutated", must, k, true},
		{o + 8, o + 10, "cookie TLV length mutated", must, k, true},
		{o + 10, o + 26, "cookie nonce mutated", must, k, false},
		{o + 26, o + 28, "cookie TLV type mutated", must, k, true},
		{o + 28, o + 30, "cookie TLV length mutated", must, k, true},
		{o + 30, o + c10CookieLen, "cookie ciphertext mutated", must, k, false},
	}
}

// c10Layout returns the spans of a request (1 cookie, nPlace placeholders) or a
// response (nEnc encrypted cookies), and the total length.
func c10Layout(nPlace, nEnc int, response bool) (spans []c10Span, total int) {
	a := "authenticated"
	spans = append(spans, c10Span{0, 48, "NTP header mutated", true, a, false})
	pos := 48
	spans = append(spans,
		c10Span{pos, pos + 2, "unique-id extension type mutated", true, a, true},
		c10Span{pos + 2, pos + 4, "unique-id extension length mutated", true, a, true},
		c10Span{pos + 4, pos + 36, "unique-id value mutated", true, a, false})
	pos += 36
	ptLen := 0
	if !response {
		spans = append(spans,
			c10Span{pos, pos + 2, "cookie extension type mutated", true, a, true},
			c10Span{pos + 2, pos + 4, "cookie extension length mutated", true, a, true})
		spans = append(spans, c10CookieSpans(pos+4, a, true)...)
		pos += 4 + c10CookieLen
		for i := 0; i < nPlace; i++ {
			spans = append(spans,
				c10Span{pos, pos + 2, "placeholder extension type mutated", true, a, true},
				c10Span{pos + 2, pos + 4, "placeholder extension length mutated", true, a, true},
				c10Span{pos + 4, pos + 4 + c10CookieLen, "placeholder value mutated", true, a, false})
			pos += 4 + c10CookieLen
		}
	} else {
		ptLen = nEnc * (4 + c10CookieLen)
	}
	f := "framing"
	spans = append(spans,
		c10Span{pos, pos + 2, "authenticator type word mutated", false, f, true},
		c10Span{pos + 2, pos + 4, "authenticator length word mutated", false, f, true},
		// the two inner length words decide which bytes are the nonce and the ciphertext: changing
		// one changes the nonce or the ciphertext the receiver verifies
		c10Span{pos + 4, pos + 6, "nonce-length word mutated", true, "nonce", true},
		c10Span{pos + 6, pos + 8, "ciphertext-length word mutated", true, "ciphertext", true},
		c10Span{pos + 8, pos + 24, "nonce mutated", true, "nonce", false},
		c10Span{pos + 24, pos + 24 + 16 + ptLen, "ciphertext mutated", true, "ciphertext", false})
	return spans, pos + 24 + 16 + ptLen
}

func c10SpanAt(spans []c10Span, off int) *c10Span {
	for i := range spans {
		if off >= spans[i].Lo && off < spans[i].Hi {
			return &spans[i]
		}
	}
	return nil
}

// c10ShortExt: does the sequential walk over the extension fields of b meet a
// field with Length < 4 before it reaches an authenticator?  (harness parse)
func c10ShortExt(b []byte) (short bool, value int) {
	pos := 48
	for pos+4 <= len(b) {
		t := binary.BigEndian.Uint16(b[pos:])
		l := int(binary.BigEndian.Uint16(b[pos+2:]))
		if l < 4 {
			return true, l
		}
		if t == 0x0404 {
			return false, 0
		}
		pos += l
	}
	return false, 0
}

// ---------------------------------------------------------------------------
// generated sessions

type c10Session struct {
	prov      c10Provider
	serverKey []byte
	keyID     uint16
	c2s, s2c  []byte
	cookie    []byte
	nPlace    int
	req       []byte
	reqID     []byte
	resp      []byte
	nEnc      int
}

func c10Rand(rng *rand.Rand, n int) []byte {
	b := make([]byte, n)
	for i := range b {
		b[i] = byte(rng.Uint32())
	}
	return b
}

func c10SealCookie(serverKey []byte, keyID uint16, s2c, c2s []byte) []byte {
	sc := ntske.ServerCookie{Algo: ntske.AES_SIV_CMAC_256, S2C: s2c, C2S: c2s}
	ec, err := sc.EncryptWithNonce(serverKey, int(keyID))
	if err != nil {
		panic(err)
	}
	return ec.Encode()
}

func c10NTPHeader(rng *rand.Rand, mode uint8) []byte {
	var p ntp.Packet
	p.SetVersion(4)
	p.SetMode(mode)
	p.SetLeapIndicator(uint8(rng.IntN(4)))
	p.Stratum = uint8(rng.IntN(16))
	p.Poll = int8(rng.IntN(17))
	p.Precision = int8(-rng.IntN(32))
	p.RootDelay = ntp.Time32{Seconds: uint16(rng.IntN(4)), Fraction: uint16(rng.Uint32())}
	p.RootDispersion = ntp.Time32{Seconds: uint16(rng.IntN(4)), Fraction: uint16(rng.Uint32())}
	p.ReferenceID = rng.Uint32()
	p.ReferenceTime = ntp.Time64{Seconds: rng.Uint32(), Fraction: rng.Uint32()}
	p.OriginTime = ntp.Time64{Seconds: rng.Uint32(), Fraction: rng.Uint32()}
	p.ReceiveTime = ntp.Time64{Seconds: rng.Uint32(), Fraction: rng.Uint32()}
	p.TransmitTime = ntp.Time64{Seconds: rng.Uint32(), Fraction: rng.Uint32()}
	var b []byte
	ntp.EncodePacket(&b, &p)
	return b
}

// c10NewSession builds keys, a cookie, a request with nPlace placeholders and
// the response the server would send to it.
func c10NewSession(rng *rand.Rand, nPlace int) *c10Session {
	s := &c10Session{nPlace: nPlace}
	s.serverKey = c10Rand(rng, 32)
	s.keyID = uint16(rng.Uint32())
	other := s.keyID + 1 + uint16(rng.IntN(65535))
	s.prov = c10Provider{s.keyID: s.serverKey, other: c10Rand(rng, 32)} // current and previous key
	s.c2s, s.s2c = c10Rand(rng, 32), c10Rand(rng, 32)
	s.cookie = c10SealCookie(s.serverKey, s.keyID, s.s2c, s.c2s)
	s.req, s.reqID = c10BuildRequest(rng, s.c2s, s.s2c, s.cookie, nPlace)
	s.nEnc = 1 + nPlace // one fresh cookie per cookie and placeholder of the request
	s.resp = c10BuildResponse(rng, s, s.s2c, s.reqID)
	return s
}

func c10BuildRequest(rng *rand.Rand, c2s, s2c, cookie []byte, nPlace int) (req, id []byte) {
	stored := make([][]byte, 8-nPlace) // the client holds 8-nPlace cookies
	for i := range stored {
		stored[i] = cookie
	}
	pkt, id := nts.NewRequestPacket(ntske.Data{C2sKey: c2s, S2cKey: s2c, Cookie: stored})
	buf := c10NTPHeader(rng, ntp.ModeClient)
	nts.EncodePacket(&buf, &pkt)
	return append([]byte(nil), buf...), id
}

func c10BuildResponse(rng *rand.Rand, s *c10Session, key, id []byte) []byte {
	var cookies [][]byte
	for i := 0; i < s.nEnc; i++ {
		cookies = append(cookies, c10SealCookie(s.serverKey, s.keyID, s.s2c, s.c2s))
	}
	pkt := nts.NewResponsePacket(cookies, key, id)
	buf := c10NTPHeader(rng, ntp.ModeServer)
	nts.EncodePacket(&buf, &pkt)
	return append([]byte(nil), buf...)
}

// ---------------------------------------------------------------------------
// child-process probe for inputs whose walk meets an extension length < 4
// (an unbounded loop that may also allocate must not run inside the monitor)

func init() {
	Legs["c10probe"] = func(args []string) {
		if len(args) < 5 {
			os.Exit(3)
		}
		unhex := func(s string) []byte { b, _ := hex.DecodeString(s); return b }
		buf, key, k2 := unhex(args[1]), unhex(args[3]), unhex(args[4])
		id, _ := strconv.Atoi(args[2])
		stage := new(string)
		go func() {
			var ms runtime.MemStats
			for {
				time.Sleep(5 * time.Millisecond)
				runtime.ReadMemStats(&ms)
				if ms.HeapAlloc > 768<<20 {
					fmt.Printf("verdict=memory-growth stage=%s\n", *stage)
					os.Exit(4)
				}
			}
		}()
		time.AfterFunc(c10Watchdog, func() {
			fmt.Printf("verdict=hang stage=%s\n", *stage)
			os.Exit(5)
		})
		defer func() {
			if p := recover(); p != nil {
				fmt.Printf("verdict=panic stage=%s %v\n", *stage, p)
				os.Exit(6)
			}
		}()
		var res c10Res
		if args[0] == "req" {
			res = c10Server(buf, c10Provider{uint16(id): key}, nil, stage)
		} else {
			res = c10Client(buf, key, k2, stage)
		}
		fmt.Printf("verdict=%v stage=%s %s\n", map[bool]string{true: "accepted", false: "rejected"}[res.ok], *stage, res.err)
	}
}

// c10Probe runs one datagram in a child process; verdict is one of
// accepted, rejected, panic, hang, memory-growth.
func c10Probe(kind string, buf []byte, keyID uint16, key, k2 []byte) (verdict, detail string) {
	bin := os.Getenv("VERIF_MON_PLAIN")
	if _, err := os.Stat(bin); bin == "" || err != nil {
		bin, _ = os.Executable()
	}
	cmd := exec.Command(bin, "leg", "c10probe", kind, hex.EncodeToString(buf), strconv.Itoa(int(keyID)), hex.EncodeToString(key), hex.EncodeToString(k2))
	var out bytes.Buffer
	cmd.Stdout = &out
	cmd.Stderr = &out
	if err := cmd.Start(); err != nil {
		return "error", err.Error()
	}
	done := make(chan struct{})
	go func() { _ = cmd.Wait(); close(done) }()
	select {
	case <-done:
	case <-time.After(2 * c10Watchdog):
		_ = cmd.Process.Kill()
		<-done
		return "hang", "killed by the parent"
	}
	s := out.String()
	if i := strings.Index(s, "verdict="); i >= 0 {
		line := s[i+8:]
		if j := strings.IndexByte(line, '\n'); j >= 0 {
			line = line[:j]
		}
		v, rest, _ := strings.Cut(line, " ")
		return v, rest
	}
	if strings.Contains(s, "out of memory") {
		return "memory-growth", "runtime: out of memory"
	}
	if len(s) > 300 {
		s = s[:300]
	}
	return "error", s
}

// c10Unsafe[v]: extension length v (< 4) was seen to hang or grow memory; such
// inputs are not run inside the monitor process any more.
type c10State struct {
	mu       sync.Mutex
	unsafe   [4]bool
	skipped  atomic.Int64
	inproc   atomic.Int64
	hangSeen atomic.Bool
}

func (st *c10State) isUnsafe(v int) bool {
	st.mu.Lock()
	defer st.mu.Unlock()
	return v >= 0 && v < 4 && st.unsafe[v]
}

func (st *c10State) setUnsafe(v int) {
	// one input class: once any length < 4 hung or grew memory, none of them runs in the monitor process any more
	st.mu.Lock()
	st.unsafe = [4]bool{true, true, true, true}
	st.mu.Unlock()
}

// ---------------------------------------------------------------------------
// judging mutants

type c10Ctx struct {
	r  *ev.Run
	st *c10State
}

type c10Mut struct {
	dir     string // "req" | "resp" | "cookie"
	gate    string // the call whose acceptance is the oracle's subject
	how     string // "bitflip" | "field" | "struct"
	class   string // input class (signature)
	kind    string // authenticated | nonce | ciphertext | framing
	must    bool
	caseID  string
	orig    []byte
	mutated []byte
	desc    string
}

func (m *c10Mut) witness(res c10Res) map[string]any {
	return map[string]any{"direction": m.dir, "mutation": m.desc, "byte_class": m.kind, "input_class": m.class,
		"original": ev.Hex(m.orig), "mutated": ev.Hex(m.mutated), "expected": "rejected with an error", "got": res.String()}
}

func c10StageOf(detail string) string {
	if i := strings.Index(detail, "stage="); i >= 0 {
		s := detail[i+6:]
		if j := strings.IndexByte(s, ' '); j >= 0 {
			s = s[:j]
		}
		if s != "" {
			return s
		}
	}
	return "nts.DecodePacket"
}

// judge applies the oracle to the outcome of one mutant.
func (c *c10Ctx) judge(m *c10Mut, res c10Res) {
	r := c.r
	cls := "nts:" + m.dir + "-" + m.how + "-" + m.kind
	switch {
	case res.hung:
		r.Class(cls + "-hang")
		r.Violation(res.stage+"|hang|"+m.class, m.caseID, m.witness(res))
	case res.panicV != nil:
		r.Class(cls + "-panic")
		r.Violation(res.stage+"|panic:"+c14Panic(res.panicV)+"|"+m.class, m.caseID, m.witness(res))
	case res.ok && m.must:
		r.Class(cls + "-accepted")
		r.Violation(m.gate+"|wrong-value:accepted after a change to "+m.kind+" bytes|"+m.class, m.caseID, m.witness(res))
	case res.ok:
		r.Class(cls + "-accepted")
	default:
		r.Class(cls + "-rejected")
	}
}

// run executes one mutant of a datagram (req/resp) with the length<4 screening.
func (c *c10Ctx) run(m *c10Mut, accept func(b []byte, stage *string) c10Res) {
	if m.dir != "cookie" {
		if short, v := c10ShortExt(m.mutated); short {
			if c.st.isUnsafe(v) {
				c.st.skipped.Add(1)
				c.r.Class("nts:" + m.dir + "-ext-length<4-not-run-after-hang")
				return
			}
			c.st.inproc.Add(1)
			res := c10Guard(func(st *string) c10Res { return accept(m.mutated, st) })
			if res.hung {
				c.st.setUnsafe(v)
				c.r.Violation("nts.DecodePacket|hang|extension length < 4", m.caseID, m.witness(res))
				return
			}
			mm := *m
			if res.panicV != nil {
				mm.class = "extension length < 4"
			}
			c.judge(&mm, res)
			return
		}
	}
	c.judge(m, c10Guard(func(st *string) c10Res { return accept(m.mutated, st) }))
}

var c10WordValues = []int{0, 1, 2, 3, 4, 5, 8, 12, 15, 16, 17, 20, 24, 28, 32, 36, 40, 64, 94, 124, 128, 132, 255, 256, 1024, 0x7fff, 0x8000, 0xfffc, 0xffff}

// mutants presents every single-bit and a set of single-field mutations of a datagram.
func (c *c10Ctx) mutants(dir, gate, caseID string, orig []byte, spans []c10Span, rng *rand.Rand, accept func(b []byte, stage *string) c10Res) int64 {
	var n int64
	mk := func(how string, sp *c10Span, b []byte, desc string) {
		n++
		c.run(&c10Mut{dir: dir, gate: gate, how: how, class: sp.Class, kind: sp.Kind, must: sp.Must, caseID: caseID, orig: orig, mutated: b, desc: desc}, accept)
	}
	for off := 0; off < len(orig); off++ {
		sp := c10SpanAt(spans, off)
		if sp == nil {
			continue
		}
		for bit := 0; bit < 8; bit++ {
			b := append([]byte(nil), orig...)
			b[off] ^= 1 << uint(bit)
			mk("bitflip", sp, b, fmt.Sprintf("bit %d of byte %d flipped", bit, off))
		}
	}
	for i := range spans {
		sp := &spans[i]
		if sp.Word {
			o := int(binary.BigEndian.Uint16(orig[sp.Lo:]))
			vals := append([]int{o - 4, o + 4, o - 1, o + 1, o ^ 0x0100, o ^ 0x0200, int(rng.Uint32() & 0xffff), int(rng.Uint32() & 0xffff)}, c10WordValues...)
			for _, v := range vals {
				if v < 0 || v > 0xffff || v == o {
					continue
				}
				b := append([]byte(nil), orig...)
				binary.BigEndian.PutUint16(b[sp.Lo:], uint16(v))
				mk("field", sp, b, fmt.Sprintf("16-bit word at %d set to %d (was %d)", sp.Lo, v, o))
			}
			continue
		}
		for k := 0; k < 3; k++ { // the whole field replaced
			b := append([]byte(nil), orig...)
			for j := sp.Lo; j < sp.Hi; j++ {
				switch k {
				case 0:
					b[j] = 0
				case 1:
					b[j] = 0xff
				default:
					b[j] = byte(rng.Uint32())
				}
			}
			if !bytes.Equal(b, orig) {
				mk("field", sp, b, fmt.Sprintf("bytes %d..%d replaced", sp.Lo, sp.Hi))
			}
		}
	}
	if dir != "cookie" {
		// the datagram length: truncated (the ciphertext is cut), or trailing bytes appended (framing)
		ct := spans[len(spans)-1]
		auth := ct.Lo - 24
		cut := c10Span{Class: "datagram truncated", Must: true, Kind: "ciphertext"}
		for _, l := range []int{len(orig) - 1, len(orig) - 2, len(orig) - 4, len(orig) - 15, len(orig) - 16, ct.Lo + 1, ct.Lo, auth + 28, auth + 27, auth + 8, auth + 4, auth, 84, 52, 49, 48} {
			if l >= 48 && l < len(orig) {
				sp := cut
				if len(bytes.Trim(orig[l:], "\x00")) == 0 {
					// only zero bytes are cut off: a decoder that zero-fills sees the same ciphertext, so no verdict is asserted
					sp = c10Span{Class: "datagram truncated by zero bytes", Must: false, Kind: "framing"}
				}
				mk("field", &sp, append([]byte(nil), orig[:l]...), fmt.Sprintf("datagram truncated to %d bytes", l))
			}
		}
		app := c10Span{Class: "bytes appended after the authenticator", Must: false, Kind: "framing"}
		for _, extra := range [][]byte{{0, 0, 0, 0}, c10Rand(rng, 4), make([]byte, 28), c10Rand(rng, 40)} {
			if len(orig)+len(extra) <= nts.MaxPacketLen+64 {
				mk("field", &app, append(append([]byte(nil), orig...), extra...), fmt.Sprintf("%d bytes appended", len(extra)))
			}
		}
	}
	return n
}

func (c *c10Ctx) expectAccept(gate, class, caseID string, res c10Res, w map[string]any) bool {
	switch {
	case res.hung:
		c.r.Violation(res.stage+"|hang|"+class, caseID, w)
	case res.panicV != nil:
		w["panic"] = fmt.Sprint(res.panicV)
		c.r.Violation(res.stage+"|panic:"+c14Panic(res.panicV)+"|"+class, caseID, w)
	case !res.ok:
		w["got"] = res.String()
		c.r.Violation(gate+"|wrong-value:packet of the project's own encoder rejected under the same keys|"+class, caseID, w)
	default:
		return true
	}
	return false
}

func (c *c10Ctx) expectReject(gate, class, caseID string, res c10Res, w map[string]any) {
	switch {
	case res.hung:
		c.r.Violation(res.stage+"|hang|"+class, caseID, w)
	case res.panicV != nil:
		w["panic"] = fmt.Sprint(res.panicV)
		c.r.Violation(res.stage+"|panic:"+c14Panic(res.panicV)+"|"+class, caseID, w)
	case res.ok:
		c.r.Violation(gate+"|wrong-value:accepted|"+class, caseID, w)
	default:
		c.r.Class("nts:" + strings.ReplaceAll(class, " ", "-") + ":rejected")
	}
}

// session runs completeness, key/direction/id checks and all mutants of one session.
func (c *c10Ctx) session(caseID string, rng *rand.Rand) int64 {
	r := c.r
	nPlace := rng.IntN(7)
	s := c10NewSession(rng, nPlace)
	var n int64
	w := func() map[string]any {
		return map[string]any{"request": ev.Hex(s.req), "response": ev.Hex(s.resp), "cookie": ev.Hex(s.cookie), "c2s": ev.Hex(s.c2s), "s2c": ev.Hex(s.s2c),
			"server_key": ev.Hex(s.serverKey), "key_id": s.keyID, "unique_id": ev.Hex(s.reqID), "placeholders": nPlace}
	}
	server := func(b []byte, st *string) c10Res { return c10Server(b, s.prov, nil, st) }
	client := func(b []byte, st *string) c10Res { return c10Client(b, s.s2c, s.reqID, st) }
	g := func(f func(st *string) c10Res) c10Res { n++; return c10Guard(f) }

	reqSpans, reqLen := c10Layout(nPlace, 0, false)
	respSpans, respLen := c10Layout(0, s.nEnc, true)
	if len(s.req) != reqLen || len(s.resp) != respLen || len(s.cookie) != c10CookieLen {
		r.Inconclusive(fmt.Sprintf("encoded sizes differ from the layout asked for (request %d/%d, response %d/%d, cookie %d/%d)",
			len(s.req), reqLen, len(s.resp), respLen, len(s.cookie), c10CookieLen))
		return n
	}

	// completeness
	res := g(func(st *string) c10Res { return server(s.req, st) })
	okReq := c.expectAccept("nts.ProcessRequest", "request", caseID, res, w())
	if okReq {
		if res.cookie.Algo != ntske.AES_SIV_CMAC_256 || !bytes.Equal(res.cookie.S2C, s.s2c) || !bytes.Equal(res.cookie.C2S, s.c2s) {
			r.Violation("ntske.EncryptedServerCookie.Decrypt|wrong-value:opened cookie differs from the sealed (algo,S2C,C2S)|request", caseID, w())
		}
		r.Class("nts:req-accepted")
	}
	res = g(func(st *string) c10Res { return client(s.resp, st) })
	okResp := c.expectAccept("nts.ProcessResponse", "response", caseID, res, w())
	if okResp {
		r.Class("nts:resp-accepted")
	}

	// other keys, other direction, other request
	fresh := c10Rand(rng, 32)
	t := c10NewSession(rng, nPlace) // an unrelated session of another client with the same server
	t.prov = s.prov
	rej := func(gate, class string, f func(st *string) c10Res) { c.expectReject(gate, class, caseID, g(f), w()) }
	rej("nts.ProcessRequest", "request verified with a fresh random key", func(st *string) c10Res { return c10Server(s.req, s.prov, fresh, st) })
	rej("nts.ProcessRequest", "request verified with the S2C key", func(st *string) c10Res { return c10Server(s.req, s.prov, s.s2c, st) })
	wrongDir, _ := c10BuildRequest(rng, s.s2c, s.c2s, s.cookie, nPlace) // client signs with S2C
	rej("nts.ProcessRequest", "request authenticated with the S2C key", func(st *string) c10Res { return server(wrongDir, st) })
	otherCookie := c10SealCookie(s.serverKey, s.keyID, c10Rand(rng, 32), c10Rand(rng, 32))
	foreign, _ := c10BuildRequest(rng, s.c2s, s.s2c, otherCookie, nPlace)
	rej("nts.ProcessRequest", "request with a cookie of another session", func(st *string) c10Res { return server(foreign, st) })
	rej("ntske.EncryptedServerCookie.Decrypt", "request under a server key that did not seal the cookie", func(st *string) c10Res {
		return c10Server(s.req, c10Provider{s.keyID: fresh}, nil, st)
	})
	rej("nts.ProcessResponse", "response verified with a fresh random key", func(st *string) c10Res { return c10Client(s.resp, fresh, s.reqID, st) })
	rej("nts.ProcessResponse", "response verified with the C2S key", func(st *string) c10Res { return c10Client(s.resp, s.c2s, s.reqID, st) })
	respC2S := c10BuildResponse(rng, s, s.c2s, s.reqID)
	rej("nts.ProcessResponse", "response authenticated with the C2S key", func(st *string) c10Res { return client(respC2S, st) })
	rej("nts.ProcessResponse", "response to another request (outstanding id differs)", func(st *string) c10Res { return c10Client(s.resp, s.s2c, t.reqID, st) })
	respOther := c10BuildResponse(rng, s, s.s2c, t.reqID)
	rej("nts.ProcessResponse", "response to another request (same keys, other unique id)", func(st *string) c10Res { return client(respOther, st) })
	rej("nts.ProcessResponse", "response of another session", func(st *string) c10Res { return client(t.resp, st) })
	rej("nts.ProcessResponse", "request reflected as a response", func(st *string) c10Res { return client(s.req, st) })
	rej("nts.ProcessRequest", "response presented as a request", func(st *string) c10Res { return server(s.resp, st) })
	for _, extra := range []int{1, 4, 32} {
		// a response, authenticated under S2C, whose identifier is longer than the outstanding one and begins with it
		longID := append(append([]byte{}, s.reqID...), c10Rand(rng, extra)...)
		respLong := c10BuildResponse(rng, s, s.s2c, longID)
		rej("nts.ProcessResponse", "response id begins with the outstanding id and is longer", func(st *string) c10Res { return client(respLong, st) })
	}
	if len(s.reqID) > 0 {
		short := s.reqID[:len(s.reqID)-1]
		rej("nts.ProcessResponse", "outstanding id is a prefix of the response id", func(st *string) c10Res { return c10Client(s.resp, s.s2c, short, st) })
	}
	// extension fields appended after the authenticator are outside what it covers: a genuine
	// response to another request replayed with the outstanding request's identifier appended
	// must still be rejected, and so must a request whose cookie is swapped in after the authenticator
	{
		ext := func(t uint16, body []byte) []byte {
			b := make([]byte, 4+len(body))
			b[0], b[1] = byte(t>>8), byte(t)
			b[2], b[3] = byte(len(b)>>8), byte(len(b))
			copy(b[4:], body)
			return b
		}
		replay := append(append([]byte{}, respOther...), ext(0x0104, s.reqID)...)
		rej("nts.ProcessResponse", "response to another request with the outstanding unique id appended after the authenticator", func(st *string) c10Res { return client(replay, st) })
		replay2 := append(append([]byte{}, t.resp...), ext(0x0104, s.reqID)...)
		rej("nts.ProcessResponse", "response of another session with the outstanding unique id appended after the authenticator", func(st *string) c10Res { return client(replay2, st) })
		// two mutations that cooperate: fields inserted in front of the authenticator, and the (itself
		// unauthenticated) length word of the authenticator field increased by their size, so that a
		// decoder that locates the authenticated part from the packet's end still finds the old prefix
		insert := func(orig, fields []byte) []byte {
			pos := 48
			for pos+4 <= len(orig) {
				ty := int(orig[pos])<<8 | int(orig[pos+1])
				l := int(orig[pos+2])<<8 | int(orig[pos+3])
				if ty == 0x0404 || l < 4 {
					break
				}
				pos += l
			}
			if pos+4 > len(orig) {
				return nil
			}
			b := append(append(append([]byte{}, orig[:pos]...), fields...), orig[pos:]...)
			l := int(orig[pos+2])<<8 | int(orig[pos+3]) + len(fields)
			b[pos+len(fields)+2], b[pos+len(fields)+3] = byte(l>>8), byte(l)
			return b
		}
		if ins := insert(respOther, ext(0x0104, s.reqID)); ins != nil {
			rej("nts.ProcessResponse", "response to another request with the outstanding unique id inserted in front of the authenticator and the authenticator's length word raised", func(st *string) c10Res { return client(ins, st) })
		}
		var ph []byte
		for i := 0; i < 3; i++ {
			ph = append(ph, ext(0x0304, make([]byte, len(s.cookie)))...)
		}
		if ins := insert(s.req, ph); ins != nil {
			rej("nts.ProcessRequest", "request with placeholders inserted in front of the authenticator and the authenticator's length word raised", func(st *string) c10Res { return server(ins, st) })
		}
	}

	// an authenticator without room for the 16-byte AES-SIV tag cannot verify anything: forged
	// packets that copy the clear-text fields (header, unique id, cookie) and carry an authenticator
	// with an empty or short ciphertext must be rejected on both sides
	{
		forge := func(orig []byte, ctLen int) []byte {
			// everything before the authenticator field of the original, then a key-less authenticator
			pos := 48
			for pos+4 <= len(orig) {
				t := int(orig[pos])<<8 | int(orig[pos+1])
				l := int(orig[pos+2])<<8 | int(orig[pos+3])
				if t == 0x0404 || l < 4 {
					break
				}
				pos += l
			}
			b := append([]byte{}, orig[:pos]...)
			body := make([]byte, 4+16+((ctLen+3)&^3))
			body[1] = 16
			body[2], body[3] = byte(ctLen>>8), byte(ctLen)
			copy(body[4:], c10Rand(rng, 16))
			copy(body[20:], c10Rand(rng, ctLen))
			for len(body) < 24 {
				body = append(body, 0) // the decoder only looks at fields of at least 28 bytes
			}
			f := make([]byte, 4+len(body))
			f[0], f[1] = 0x04, 0x04
			f[2], f[3] = byte(len(f)>>8), byte(len(f))
			copy(f[4:], body)
			return append(b, f...)
		}
		for _, l := range []int{0, 1, 8, 15} {
			fr, fq := forge(s.resp, l), forge(s.req, l)
			rej("nts.ProcessResponse", "forged response whose authenticator has no room for a tag", func(st *string) c10Res { return client(fr, st) })
			rej("nts.ProcessRequest", "forged request whose authenticator has no room for a tag", func(st *string) c10Res { return server(fq, st) })
		}
	}

	// every single-bit and single-field mutation
	if okReq {
		n += c.mutants("req", "nts.ProcessRequest", caseID, s.req, reqSpans, rng, server)
	}
	if okResp {
		n += c.mutants("resp", "nts.ProcessResponse", caseID, s.resp, respSpans, rng, client)
	}
	r.Sample(map[string]any{"kind": "session", "placeholders": nPlace, "request": ev.Hex(s.req), "response_bytes": len(s.resp), "cookie": ev.Hex(s.cookie)})
	return n
}

// cookieCase: a cookie on its own.
func (c *c10Ctx) cookieCase(caseID string, rng *rand.Rand) int64 {
	r := c.r
	var n int64
	serverKey, fresh := c10Rand(rng, 32), c10Rand(rng, 32)
	keyID := uint16(rng.Uint32())
	other := keyID + 1 + uint16(rng.IntN(65535))
	prov := c10Provider{keyID: serverKey, other: c10Rand(rng, 32)}
	s2c, c2s := c10Rand(rng, 32), c10Rand(rng, 32)
	cookie := c10SealCookie(serverKey, keyID, s2c, c2s)
	w := map[string]any{"cookie": ev.Hex(cookie), "server_key": ev.Hex(serverKey), "key_id": keyID, "s2c": ev.Hex(s2c), "c2s": ev.Hex(c2s)}
	open := func(b []byte, st *string) c10Res { return c10Cookie(b, prov, st) }
	n++
	res := c10Guard(func(st *string) c10Res { return open(cookie, st) })
	if !c.expectAccept("ntske.EncryptedServerCookie.Decrypt", "cookie", caseID, res, w) {
		return n
	}
	if res.cookie.Algo != ntske.AES_SIV_CMAC_256 || !bytes.Equal(res.cookie.S2C, s2c) || !bytes.Equal(res.cookie.C2S, c2s) {
		r.Violation("ntske.EncryptedServerCookie.Decrypt|wrong-value:opened cookie differs from the sealed (algo,S2C,C2S)|cookie", caseID, w)
	}
	r.Class("nts:cookie-opened-exact")
	// session keys of other lengths (other AEAD algorithms export 48- or 64-byte keys; the two need
	// not be of one length for the cookie format): the cookie yields exactly what was sealed
	{
		lens := []int{16, 32, 48, 64}
		ks, kc := c10Rand(rng, lens[rng.IntN(4)]), c10Rand(rng, lens[rng.IntN(4)])
		ck := c10SealCookie(serverKey, keyID, ks, kc)
		n++
		res2 := c10Guard(func(st *string) c10Res { return open(ck, st) })
		w2 := map[string]any{"cookie": ev.Hex(ck), "server_key": ev.Hex(serverKey), "key_id": keyID, "s2c": ev.Hex(ks), "c2s": ev.Hex(kc)}
		if c.expectAccept("ntske.EncryptedServerCookie.Decrypt", "cookie with session keys of other lengths", caseID, res2, w2) {
			if !bytes.Equal(res2.cookie.S2C, ks) || !bytes.Equal(res2.cookie.C2S, kc) {
				r.Violation("ntske.EncryptedServerCookie.Decrypt|wrong-value:opened cookie differs from the sealed (algo,S2C,C2S)|cookie with session keys of other lengths", caseID, w2)
			} else {
				r.Class(fmt.Sprintf("nts:cookie-opened-exact(key lengths equal=%v)", len(ks) == len(kc)))
			}
		}
	}
	// the opened keys belong to this cookie for as long as the caller holds them: opening other
	// cookies afterwards (as concurrent listeners do) must not change them
	{
		held := res.cookie
		for k := 0; k < 3; k++ {
			o2 := c10SealCookie(serverKey, keyID, c10Rand(rng, 32), c10Rand(rng, 32))
			_ = c10Guard(func(st *string) c10Res { return open(o2, st) })
		}
		n += 3
		if !bytes.Equal(held.S2C, s2c) || !bytes.Equal(held.C2S, c2s) {
			r.Violation("ntske.EncryptedServerCookie.Decrypt|wrong-value:keys of an opened cookie changed when other cookies were opened|cookie", caseID, w)
		} else {
			r.Class("nts:opened-keys-stable-across-later-openings")
		}
	}
	n += 2
	c.expectReject("ntske.EncryptedServerCookie.Decrypt", "cookie opened under a fresh random key", caseID,
		c10Guard(func(st *string) c10Res { return c10Cookie(cookie, c10Provider{keyID: fresh}, st) }), w)
	c.expectReject("ntske.EncryptedServerCookie.Decrypt", "cookie opened under the server's other key", caseID,
		c10Guard(func(st *string) c10Res { return c10Cookie(cookie, c10Provider{keyID: prov[other]}, st) }), w)

	spans := c10CookieSpans(0, "", true)
	for i := range spans {
		switch spans[i].Class {
		case "cookie nonce mutated":
			spans[i].Kind = "nonce"
		case "cookie ciphertext mutated":
			spans[i].Kind = "ciphertext"
		case "cookie key id mutated":
			spans[i].Kind = "authenticated" // selects the key: another id means another or no key
			spans[i].Word = false
		default:
			spans[i].Kind, spans[i].Must = "framing", false
		}
	}
	n += c.mutants("cookie", "ntske.EncryptedServerCookie.Decrypt", caseID, cookie, spans, rng, open)

	// single-field mutations of the decoded cookie, re-encoded by the project's encoder
	var ec ntske.EncryptedServerCookie
	if err := ec.Decode(append([]byte(nil), cookie...)); err != nil {
		return n
	}
	restruct := func(class, kind, desc string, f func(e *ntske.EncryptedServerCookie)) {
		e := ntske.EncryptedServerCookie{ID: ec.ID, Nonce: append([]byte(nil), ec.Nonce...), Ciphertext: append([]byte(nil), ec.Ciphertext...)}
		f(&e)
		b := e.Encode()
		n++
		c.run(&c10Mut{dir: "cookie", gate: "ntske.EncryptedServerCookie.Decrypt", how: "struct", class: class, kind: kind, must: true,
			caseID: caseID, orig: cookie, mutated: b, desc: desc}, open)
	}
	for _, l := range []int{0, 1, 4, 8, 12, 15, 17, 20, 24, 32, 48} {
		restruct("cookie nonce length != 16", "nonce", fmt.Sprintf("nonce re-encoded with %d bytes", l), func(e *ntske.EncryptedServerCookie) {
			nn := make([]byte, l)
			copy(nn, e.Nonce)
			e.Nonce = nn
		})
	}
	for _, l := range []int{0, 1, 8, 15, 16, 17, 32, 50, 78, 93, 95, 110} {
		restruct("cookie ciphertext length changed", "ciphertext", fmt.Sprintf("ciphertext re-encoded with %d bytes", l), func(e *ntske.EncryptedServerCookie) {
			cc := make([]byte, l)
			copy(cc, e.Ciphertext)
			e.Ciphertext = cc
		})
	}
	return n
}

// preProbe presents extension lengths 0..3 to a child process first.
func (c *c10Ctx) preProbe() {
	r := c.r
	rng := r.Rng("c10/pre")
	s := c10NewSession(rng, 2)
	reqSpans, reqLen := c10Layout(2, 0, false)
	respSpans, respLen := c10Layout(0, s.nEnc, true)
	if len(s.req) != reqLen || len(s.resp) != respLen {
		return // reported by the sessions
	}
	type job struct {
		dir   string
		sp    c10Span
		v     int
		buf   []byte
		orig  []byte
		key   []byte
		k2    []byte
		keyID uint16
	}
	var jobs []job
	add := func(dir string, orig []byte, spans []c10Span, key, k2 []byte) {
		seen := map[string]bool{}
		for _, sp := range spans {
			if !strings.HasSuffix(sp.Class, "extension length mutated") || seen[sp.Class] {
				continue
			}
			seen[sp.Class] = true
			for v := 0; v < 4; v++ {
				b := append([]byte(nil), orig...)
				binary.BigEndian.PutUint16(b[sp.Lo:], uint16(v))
				jobs = append(jobs, job{dir, sp, v, b, orig, key, k2, s.keyID})
			}
		}
	}
	add("req", s.req, reqSpans, s.serverKey, nil)
	add("resp", s.resp, respSpans, s.s2c, s.reqID)
	parallel(len(jobs), func(w, i int) {
		j := jobs[i]
		id := fmt.Sprintf("pre:%s:%s:%d", j.dir, strings.Fields(j.sp.Class)[0], j.v)
		verdict, detail := c10Probe(j.dir, j.buf, j.keyID, j.key, j.k2)
		r.Eval(1)
		wit := map[string]any{"direction": j.dir, "mutation": fmt.Sprintf("16-bit word at %d (%s) set to %d", j.sp.Lo, j.sp.Class, j.v),
			"original": ev.Hex(j.orig), "mutated": ev.Hex(j.buf), "expected": "rejected with an error", "got": verdict + " " + detail, "run_in": "child process"}
		switch verdict {
		case "hang", "memory-growth":
			c.st.setUnsafe(j.v)
			r.Class("nts:" + j.dir + "-ext-length<4-" + verdict)
			r.Violation(c10StageOf(detail)+"|"+verdict+"|extension length < 4", id, wit)
		case "panic":
			r.Class("nts:" + j.dir + "-ext-length<4-panic")
			msg := detail
			if k := strings.Index(msg, " "); k >= 0 && strings.HasPrefix(msg, "stage=") {
				msg = msg[k+1:]
			}
			r.Violation(c10StageOf(detail)+"|panic:"+c14Panic(msg)+"|extension length < 4", id, wit)
		case "accepted":
			r.Class("nts:" + j.dir + "-ext-length<4-accepted")
			r.Violation("nts.DecodePacket|wrong-value:accepted after a change to authenticated bytes|extension length < 4", id, wit)
		case "rejected":
			r.Class("nts:" + j.dir + "-ext-length<4-rejected")
		default:
			r.Inconclusive("probe child failed: " + detail)
		}
	})
}

func init() {
	register("C10", "exploration", func(r *ev.Run) {
		c := &c10Ctx{r: r, st: &c10State{}}
		only := r.Only()
		// backstop: the code under test must not exhaust the monitor's memory
		go func() {
			var ms runtime.MemStats
			for {
				time.Sleep(100 * time.Millisecond)
				runtime.ReadMemStats(&ms)
				if ms.HeapAlloc > 12<<30 {
					fmt.Println("INCONCLUSIVE property=C10 reason=memory growth inside the monitor process (a call under test allocates without bound)")
					os.Exit(2)
				}
			}
		}()
		// always first (also when replaying one case): decides whether extension lengths < 4 may run in this process
		c.preProbe()
		var total atomic.Int64
		nSess := r.Pick(40, 2000)
		nCook := r.Pick(400, 20000)
		parallel(nSess+nCook, func(w, i int) {
			var id string
			if i < nSess {
				id = fmt.Sprintf("pkt:%d", i)
			} else {
				id = fmt.Sprintf("cookie:%d", i-nSess)
			}
			if only != "" && only != id {
				return
			}
			rng := r.Rng("c10/" + id)
			if i < nSess {
				total.Add(c.session(id, rng))
			} else {
				total.Add(c.cookieCase(id, rng))
			}
		})
		// "a response to a different request is rejected" rests on the identifiers of the requests one
		// process produces being pairwise different (seed C10-k: identifiers cut from a block that is
		// filled once and reused from its start): a long run of requests of one session, from eight
		// goroutines, every identifier recorded; and a genuine response to request a verified against the
		// identifier of request b for sampled pairs a != b
		if only == "" || only == "ids" {
			nIDs := r.Pick(6000, 400000)
			rng := r.Rng("c10/ids")
			s := c10NewSession(rng, 0)
			ids := make([][]byte, nIDs)
			parallel(nIDs, func(w, i int) {
				_, id := nts.NewRequestPacket(ntske.Data{C2sKey: s.c2s, S2cKey: s.s2c, Cookie: [][]byte{s.cookie}})
				ids[i] = id
			})
			seen := make(map[string]int, nIDs)
			dup := 0
			for i, id := range ids {
				if j, ok := seen[string(id)]; ok {
					dup++
					if dup == 1 {
						resp := c10BuildResponse(rng, s, s.s2c, ids[j])
						res := c10Guard(func(st *string) c10Res { return c10Client(resp, s.s2c, id, st) })
						r.Violation("nts.NewRequestPacket|wrong-value:unique identifier of an earlier request of this process issued again: the recorded response to that request verifies for the later one", "ids",
							map[string]any{"requests_in_process": nIDs, "first_request": j, "later_request": i, "requests_apart": i - j, "unique_id": ev.Hex(id), "response_to_first_accepted_for_later": res.ok})
					}
				}
				seen[string(id)] = i
			}
			if dup == 0 {
				r.Class("nts:unique-identifiers-of-one-process-pairwise-different")
			}
			r.Set("unique_identifiers_checked", nIDs)
			total.Add(int64(nIDs))
		}
		r.Eval(total.Load())
		r.DistinctN(total.Load()) // every mutant is a different datagram
		r.Set("watchdog_fired_but_repetition_returned", c10Stalls.Load())
		r.Set("ext_length_lt4_run_in_process", c.st.inproc.Load())
		r.Set("ext_length_lt4_not_run_after_hang", c.st.skipped.Load())
		r.Assume("the server's key lookup is mirrored by a map {sealing key id, one other key id}; a changed key id is rejected because no or another key is found (the id itself is not bound by the cookie's AEAD)")
		r.Assume("cookies have the project's size (124 bytes); requests carry 1 cookie + 0..6 placeholders, responses 1..7 cookies, so that every packet fits nts.MaxPacketLen (larger ones belong to C11)")
		r.Assume("a 10 s watchdog around a pure CPU call that takes microseconds is the only use of wall-clock time; inputs whose extension walk meets a length < 4 are screened by the harness and first run in a child process")
		r.Finish("per session: random server key/key id, C2S/S2C, a sealed project cookie, a request from nts.NewRequestPacket+EncodePacket on a random client header and the response from nts.NewResponsePacket on a random server header; "+
			"completeness under the same keys/id; rejection under a fresh key, the other direction's key, another session's cookie/keys, another request's id; then every single-bit flip of every byte and single-field mutations "+
			"(every 16-bit type/length word set to ~35 values, every value field zeroed/filled/randomised, truncations, appended bytes) of request and response through the listeners' call sequence, and the same for stand-alone cookies "+
			"plus re-encoded cookies with other nonce/ciphertext lengths. Byte classes: authenticated / nonce / ciphertext (must be rejected) and framing (either way, but no panic or hang). "+
			"A behaviour class = direction x mutation kind x byte class x outcome observed", 14)
	})
}
