package monitors

import (
	"fmt"
	"log/slog"
	"math"
	"math/rand/v2"
	"strconv"
	"strings"
	"time"

	"example.com/scion-time/core/sync/adjustments"

	"verif/harness/internal/ev"
)

// C19 — PLL clock discipline: bounded slew, no step once tracking, sane actuation.
//
// The real adjustments.Pll drives a scripted clock (Now and Epoch scripted,
// Step/Adjust recorded; Step optionally bumps the epoch like the real system
// clock).  The oracle is evaluated on the update history and the recorded
// calls only; it consists of necessary conditions taken from the statement.

type c19Upd struct {
	Now     int64     `json:"now_ns"` // clock reading, ns since the first update's base
	Offset  int64     `json:"offset_ns"`
	Weight  string    `json:"weight"`
	w       float64   // not exported: may be NaN/Inf
	ExtBump uint64    `json:"external_epoch_increment,omitempty"` // epoch changed externally before this update
	Epoch   uint64    `json:"epoch_at_update"`
	Calls   []c19Call `json:"calls,omitempty"`
}

type c19Call struct {
	Kind string `json:"call"` // "Step" | "Adjust"
	X    int64  `json:"offset_ns"`
	D    int64  `json:"duration_ns,omitempty"`
	F    string `json:"frequency,omitempty"`
	f    float64
}

type c19Clock struct {
	base    time.Time
	now     int64
	epoch   uint64
	bump    bool
	calls   []c19Call
	queries int
}

func (c *c19Clock) Epoch() uint64                     { return c.epoch }
func (c *c19Clock) Now() time.Time                    { c.queries++; return c.base.Add(time.Duration(c.now)) }
func (c *c19Clock) Drift(time.Duration) time.Duration { return 0 }
func (c *c19Clock) Sleep(time.Duration)               {}
func (c *c19Clock) Step(offset time.Duration) {
	c.calls = append(c.calls, c19Call{Kind: "Step", X: int64(offset)})
	if c.bump {
		c.epoch++
	}
}
func (c *c19Clock) Adjust(offset, duration time.Duration, frequency float64) {
	c.calls = append(c.calls, c19Call{Kind: "Adjust", X: int64(offset), D: int64(duration),
		F: strconv.FormatFloat(frequency, 'g', -1, 64), f: frequency})
}

const (
	c19Sec = int64(time.Second)
	c19Ms  = int64(time.Millisecond)
)

var c19GapPool = []int64{0, 1, 1000, c19Sec - 1, c19Sec, c19Sec + 1, 2*c19Sec - 1, 2 * c19Sec, 2*c19Sec + 1, 3 * c19Sec,
	6*c19Sec - 1, 6 * c19Sec, 6*c19Sec + 1, 7 * c19Sec, 1500 * c19Ms, 2500 * c19Ms, 64 * c19Sec, 301 * c19Sec}

var c19OffPool = []int64{0, 1, -1, c19Ms, -c19Ms, c19Ms + 1, -c19Ms - 1, c19Ms - 1, -c19Ms + 1, 2 * c19Ms, -2 * c19Ms,
	math.MaxInt64, math.MinInt64 + 1, math.MinInt64, 500000, -500000, 16 * c19Ms, 17 * c19Ms, -17 * c19Ms, c19Sec, -c19Sec}

var c19WPool = []float64{0, 1, 2.999, 3, math.Nextafter(3, 4), 3.5, 4, 10, 49.9, 50, 100, 149.9, 150, 151, 1000, 1e6,
	-1, math.Inf(1), math.Inf(-1), math.NaN()}

type c19Hist struct {
	Bump   bool     `json:"step_bumps_epoch"`
	Epoch0 uint64   `json:"initial_epoch"`
	Upds   []c19Upd `json:"updates"`
}

func c19Gen(rng *rand.Rand) c19Hist {
	h := c19Hist{Bump: rng.IntN(2) == 0}
	switch rng.IntN(3) {
	case 0:
		h.Epoch0 = 0
	case 1:
		h.Epoch0 = uint64(1 + rng.IntN(5))
	default:
		h.Epoch0 = rng.Uint64() >> 1
	}
	n := 3 + rng.IntN(78)
	gapMode := rng.IntN(6)
	offMode := rng.IntN(7)
	wMode := rng.IntN(6)
	pExt := []float64{0, 0, 0.01, 0.03, 0.1}[rng.IntN(5)]
	interval := []int64{c19Sec, 2 * c19Sec, 4 * c19Sec, 16 * c19Sec, 64 * c19Sec, 1024 * c19Sec, 500 * c19Ms}[rng.IntN(7)]
	hugeAt := -1
	if rng.IntN(40) == 0 {
		hugeAt = 1 + rng.IntN(n-1)
	}
	off0 := c17Sign(rng) * c17LogU(rng, 1, 1e18)
	wConst := c19WPool[rng.IntN(len(c19WPool))]
	var now int64
	for i := 0; i < n; i++ {
		var u c19Upd
		if i > 0 {
			var gap int64
			switch gapMode {
			case 0:
				gap = interval
			case 1:
				gap = interval + rng.Int64N(interval/5+1) - interval/10
			case 2:
				gap = c19GapPool[rng.IntN(len(c19GapPool))]
			case 3:
				gap = c17LogU(rng, 1000, 1e13)
			case 4:
				gap = c17LogU(rng, 1e6, 1e9)
			default: // whole seconds +-1 ns
				gap = (1+rng.Int64N(8))*c19Sec + rng.Int64N(3) - 1
			}
			if rng.IntN(12) == 0 {
				gap = c19GapPool[rng.IntN(len(c19GapPool))]
			}
			if i == hugeAt {
				gap = c17LogU(rng, 1<<40, 1<<61)
				if rng.IntN(2) == 0 {
					gap = gap / c19Sec * c19Sec
				}
			}
			now += gap
		}
		u.Now = now
		switch offMode {
		case 0:
			u.Offset = c17Sign(rng) * c17LogU(rng, 1, 1e18)
		case 1:
			u.Offset = c19OffPool[rng.IntN(len(c19OffPool))]
		case 2:
			u.Offset = rng.Int64N(2*c19Ms+1) - c19Ms
		case 3: // converging loop
			u.Offset = int64(float64(off0) * math.Pow(0.8, float64(i)))
		case 4: // constant
			u.Offset = off0
		case 5: // around the slew clamp for the small gains: offset ~ d * 500e-6 / a
			u.Offset = c17Sign(rng) * c17LogU(rng, 1e6, 1e9)
		default:
			u.Offset = c17Sign(rng) * c17LogU(rng, 1e5, 1e8)
		}
		if rng.IntN(10) == 0 {
			u.Offset = c19OffPool[rng.IntN(len(c19OffPool))]
		}
		switch wMode {
		case 0:
			u.w = c19WPool[rng.IntN(len(c19WPool))]
		case 1:
			u.w = 150 + rng.Float64()*1000
		case 2:
			u.w = 3.0001 + rng.Float64()*46
		case 3:
			u.w = rng.Float64() * 3
			if rng.IntN(6) == 0 {
				u.w = 10 + rng.Float64()*200
			}
		case 4:
			u.w = rng.Float64() * 300
		default:
			u.w = wConst
		}
		u.Weight = strconv.FormatFloat(u.w, 'g', -1, 64)
		if i > 0 && rng.Float64() < pExt {
			u.ExtBump = uint64(1 + rng.IntN(3))
		}
		h.Upds = append(h.Upds, u)
	}
	return h
}

func c19CeilSec(gap int64) int64 { // gap >= 0
	s := gap / c19Sec
	if gap%c19Sec != 0 {
		s++
	}
	return s
}

// c19Run feeds one history to a fresh Pll and checks every update. It returns
// the number of updates executed and a fingerprint of the actuation trace.
func c19Run(r *ev.Run, id string, h c19Hist, cls c17Classes) (evals int64, trace string) {
	clk := &c19Clock{base: time.Unix(1700000000, 0).UTC(), epoch: h.Epoch0, bump: h.Bump}
	pll := adjustments.NewPLL(slog.New(slog.DiscardHandler), clk)
	var tr strings.Builder
	// oracle state, derived from the history alone
	var (
		prevEpoch  uint64
		t0         int64 // clock reading at the first update of the current epoch
		awaiting   bool  // no qualifying update seen yet in this epoch
		stepCaused bool  // the current epoch was entered because of the Pll's own Step
		adjustSeen bool  // an Adjust was observed in this epoch
		bumpSuffix = map[bool]string{true: ",step-bumps-epoch", false: ",epoch-unchanged-by-step"}
	)
	viol := func(i int, kind, class string, detail any) {
		hh := h
		hh.Upds = h.Upds[:i+1]
		r.Violation("Pll.Do|"+kind+"|"+class, id, map[string]any{"history": hh, "failed_at_update": i, "detail": detail})
	}
	for i := range h.Upds {
		u := &h.Upds[i]
		clk.epoch += u.ExtBump
		clk.now = u.Now
		clk.calls = nil
		u.Epoch = clk.epoch
		ownStep := stepCaused
		first := i == 0 || clk.epoch != prevEpoch
		if first {
			t0, awaiting, adjustSeen = u.Now, true, false
			switch {
			case i == 0:
				cls["epoch-start:initial"]++
			case u.ExtBump != 0:
				cls["epoch-restart:external"]++
				ownStep = false
			default:
				cls["epoch-restart:own-step"]++
			}
		}
		stepCaused = false
		prevEpoch = clk.epoch
		p := c17Try(func() { pll.Do(time.Duration(u.Offset), u.w) })
		evals++
		u.Calls = clk.calls
		if p != nil {
			viol(i, "panic:"+fmt.Sprint(p), "non-decreasing clock readings", fmt.Sprint(p))
			return evals, tr.String()
		}
		startClass := "initial"
		if first && i > 0 {
			startClass = "external epoch change"
			if ownStep {
				startClass = "epoch change by own step"
			}
		}
		elapsed := u.Now - t0
		qualifying := !first && awaiting && elapsed > 2*c19Sec && u.w > 3
		absOff := u.Offset
		if absOff == math.MinInt64 {
			absOff = math.MaxInt64
		} else if absOff < 0 {
			absOff = -absOff
		}
		var gap int64
		if i > 0 {
			gap = u.Now - h.Upds[i-1].Now
		}
		nStep, nAdj := 0, 0
		bad := false
		for _, c := range clk.calls {
			switch c.Kind {
			case "Step":
				nStep++
				det := map[string]any{"step_ns": c.X, "offset_ns": u.Offset, "weight": u.Weight,
					"elapsed_since_first_update_of_epoch_ns": elapsed, "first_update_of_epoch": first, "awaiting_initial_step": awaiting}
				switch {
				case first:
					viol(i, "wrong-value:step at the first update of an epoch", startClass, det)
					bad = true
				case !awaiting:
					viol(i, "wrong-value:step after the start-up step phase of the epoch is over", "same epoch"+bumpSuffix[h.Bump], det)
					bad = true
				case !qualifying:
					viol(i, "wrong-value:step without elapsed > 2 s and weight > 3", "awaiting initial step", det)
					bad = true
				case absOff <= c19Ms:
					viol(i, "wrong-value:step although |offset| <= 1 ms", "qualifying update", det)
					bad = true
				case c.X != u.Offset:
					viol(i, "wrong-value:step amount differs from the measured offset", "qualifying update", det)
					bad = true
				case nStep > 1:
					viol(i, "wrong-value:more than one step in one update", "qualifying update", det)
					bad = true
				}
			case "Adjust":
				nAdj++
				det := map[string]any{"p_ns": c.X, "duration_ns": c.D, "frequency": c.F, "offset_ns": u.Offset, "weight": u.Weight,
					"time_since_previous_update_ns": gap, "first_update_of_epoch": first}
				finite := !math.IsNaN(c.f) && !math.IsInf(c.f, 0)
				want := c19CeilSec(gap)
				// dt is evaluated in float64 seconds: exact below 2^23 s, beyond that one ulp may move the ceiling
				var slop int64
				if gap >= (1<<23)*c19Sec {
					slop = 1 + int64(float64(gap)/1e9*0x1p-51)
				}
				dSec := c.D / c19Sec
				bound := float64(dSec)*500000*(1+1e-15) + 1
				switch {
				case first:
					viol(i, "wrong-value:adjustment at the first update of an epoch", startClass, det)
					bad = true
				case c.D <= 0:
					viol(i, "wrong-value:adjustment duration <= 0", "later update of an epoch", det)
					bad = true
				case c.D%c19Sec != 0 || dSec < want-slop || dSec > want+slop:
					viol(i, "wrong-value:adjustment duration is not the elapsed time rounded up to whole seconds", "later update of an epoch", det)
					bad = true
				case math.Abs(float64(c.X)) > bound:
					viol(i, "wrong-value:slew exceeds 500 ppm of the adjustment duration", "later update of an epoch", det)
					bad = true
				case !finite:
					viol(i, "wrong-value:frequency not finite", "later update of an epoch", det)
					bad = true
				}
				if !bad {
					adjustSeen = true
					lim := float64(dSec) * 500000
					switch {
					case float64(c.X) >= lim-1:
						cls["adjust-clamped+"]++
						tr.WriteString("A+")
					case float64(c.X) <= -lim+1:
						cls["adjust-clamped-"]++
						tr.WriteString("A-")
					default:
						cls["adjust-unclamped"]++
						tr.WriteString("a")
					}
					if dSec == 1 {
						cls["adjust-d=1s"]++
					} else {
						cls["adjust-d>1s"]++
					}
					if gap%c19Sec != 0 {
						cls["adjust-dt-fractional(ceil)"]++
					}
					if slop > 0 {
						cls["adjust-gap>=2^23s"]++
					}
					switch {
					case u.w < 50:
						cls["adjust-weight<50"]++
					case u.w < 150:
						cls["adjust-weight<150"]++
					default:
						cls["adjust-weight>=150-or-NaN"]++
					}
				}
			}
		}
		if bad {
			return evals, tr.String()
		}
		if nStep > 0 {
			stepCaused = h.Bump
			tr.WriteString("S")
			if h.Bump {
				cls["step,epoch-bumped"]++
			} else {
				cls["step,epoch-unchanged"]++
			}
		}
		if first {
			tr.WriteString("|")
		}
		if nStep == 0 && nAdj == 0 {
			tr.WriteString(".")
		}
		if qualifying {
			awaiting = false
			switch {
			case nStep > 0:
			case absOff <= c19Ms:
				cls["no-step-small-offset"]++
			default:
				cls["no-step-large-offset"]++ // not observed on the unchanged code; not stated as a violation
			}
			if absOff == c19Ms || elapsed == 2*c19Sec+1 {
				cls["qualifying-at-boundary"]++
			}
		} else if !first && awaiting {
			switch {
			case elapsed > 2*c19Sec:
				cls["awaiting:blocked-by-weight"]++
			case u.w > 3:
				cls["awaiting:blocked-by-elapsed"]++
			default:
				cls["awaiting:blocked-by-both"]++
			}
			if elapsed == 2*c19Sec || u.w == 3 {
				cls["awaiting:at-boundary"]++
			}
		}
		if !first && !awaiting && nAdj == 0 && nStep == 0 {
			if adjustSeen && gap == 0 {
				cls["tracking:zero-dt-no-adjust"]++
			} else if !adjustSeen {
				cls["after-step-phase:no-actuation-yet"]++
			}
		}
	}
	return evals, tr.String()
}

func init() {
	register("C19", "exploration", func(r *ev.Run) {
		nHist := r.Pick(20000, 5000000)
		const chunk = 100
		nChunks := (nHist + chunk - 1) / chunk
		only := r.Only()
		parallel(nChunks, func(w, ci int) {
			cls := c17Classes{}
			var evals int64
			for i := ci * chunk; i < min((ci+1)*chunk, nHist); i++ {
				id := fmt.Sprintf("h%d", i)
				if only != "" && only != id {
					continue
				}
				h := c19Gen(r.Rng("c19/" + id))
				n, trace := c19Run(r, id, h, cls)
				evals += n
				r.Distinct(trace)
				if i%1000 == 7 {
					r.Sample(map[string]any{"case": id, "history": h, "actuation_trace": trace})
				}
			}
			r.Eval(evals)
			cls.flush(r)
		})
		c19Kernel(r)
		r.Assume("clock readings non-decreasing; gaps between updates <= 2^61 ns; one clock reading per update")
		r.Assume("for gaps >= 2^23 s the elapsed time in float64 seconds is not exact to the nanosecond: the expected duration ceil(dt) is accepted +-(1 s + 2 ulp)")
		r.Assume("only necessary conditions from the statement are asserted: a missing step, the sign and size of p below the 500 ppm bound and the start of tracking are not judged")
		r.Assume("external epoch changes are increments (the epoch of the real clock only grows)")
		r.Finish("seeded histories of 3..80 updates (offset, weight, clock reading, optional external epoch increment) fed to a fresh adjustments.Pll on a scripted clock; half of the histories let Step bump the epoch like driver/clocks, half leave it unchanged. "+
			"gaps: fixed intervals, jitter, boundary pool around 0/1 s/2 s/6 s, log-uniform 1 us..1e4 s, sub-second, whole seconds +-1 ns, rare gaps up to 2^61 ns; offsets: log-uniform to 1e18 ns, pool around +-1 ms and int64 extremes, converging, constant, clamp region; "+
			"weights: pool around 3/50/150 incl. Inf/NaN/negative, constant, uniform. Oracle per update from the history only: Step only at the first update of the epoch that is not its first, lies > 2 s after the first and has weight > 3, only with |offset| > 1 ms, amount == offset, at most once; "+
			"Adjust never at the first update of an epoch, duration > 0 and == ceil(time since previous update) in whole seconds, |p| <= 500e-6 x duration (+1 ns), frequency finite; panics are violations. "+
			"Kernel leg: the real driver/clocks.SystemClock in child processes under strace (clock_adjtime logged and answered by injection, the sandbox clock untouched): scripted Step/Adjust sequences in real time and the real Pll through start-up, step, new epoch and tracking; every kernel call must be accounted for by a request (frequency + offset/duration; restore after the whole-second duration, never earlier unless a step cuts it short; step in normalised nanoseconds; new epoch per step). "+
			"classes = actuation kinds observed (step with/without epoch bump, no-step, clamped+/-/unclamped slew, weight ranges, zero-dt, epoch restarts by cause, blocked waiting states); distinct_nontrivial = distinct actuation traces", 14)
	})
}
