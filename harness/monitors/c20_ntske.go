package monitors

import (
	"bytes"
	"context"
	"crypto/tls"
	"encoding/binary"
	"example.com/scion-time/net/scion"
	"example.com/scion-time/net/udp"
	"fmt"
	"github.com/scionproto/scion/pkg/addr"
	"github.com/scionproto/scion/pkg/snet"
	snetpath "github.com/scionproto/scion/pkg/snet/path"
	"io"
	"log/slog"
	"math/rand/v2"
	"net"
	"net/netip"
	"strconv"
	"strings"
	"sync"
	"sync/atomic"
	"time"

	"example.com/scion-time/core/client"
	"example.com/scion-time/net/nts"
	"example.com/scion-time/net/ntske"

	"verif/harness/internal/ev"
	"verif/harness/internal/peer"
)

// C20 — NTS key exchange: agreeing keys, bad offers refused, failures leave no state.
// The real ntske.Fetcher (and the real IP client with NTS) talks to a scripted TLS server
// that sends arbitrary record streams in arbitrary write segments and exports the keys
// from its own side of the session.

const (
	c20MustFail = iota
	c20MustSucceed
	c20Either
)

type c20Parsed struct {
	verdict int
	why     string
	cookies [][]byte
	server  string
	port    uint16
}

// c20Judge classifies a record stream by the statement alone.
func c20Judge(stream []byte) c20Parsed {
	p := c20Parsed{verdict: c20MustSucceed}
	algo, haveAlgo, eom, mayFail := uint16(0), false, false, false
	either := func(why string) { p.verdict, p.why = c20Either, why }
	pos := 0
	for pos < len(stream) {
		if len(stream)-pos < 4 {
			return c20Parsed{verdict: c20MustFail, why: "truncated inside a record header"}
		}
		t := binary.BigEndian.Uint16(stream[pos:])
		n := int(binary.BigEndian.Uint16(stream[pos+2:]))
		crit := t&0x8000 != 0
		t &= 0x7fff
		if t == 0 {
			eom = true
			if n != 0 {
				either("end-of-message record with a body")
			}
			break
		}
		if len(stream)-pos-4 < n {
			if p.verdict == c20Either {
				return p
			}
			return c20Parsed{verdict: c20MustFail, why: "truncated inside a record body"}
		}
		body := stream[pos+4 : pos+4+n]
		switch t {
		case 1:
			if n != 2 {
				either("next-protocol record of unusual length")
			}
		case 4:
			if n != 2 {
				either("algorithm record of unusual length")
			} else {
				algo, haveAlgo = binary.BigEndian.Uint16(body), true
			}
		case 5:
			if n == 0 {
				either("empty cookie")
			}
			p.cookies = append(p.cookies, body)
		case 6:
			p.server = string(body)
			if net.ParseIP(p.server) == nil {
				either("server record is not an IP literal")
			}
		case 7:
			if n != 2 {
				either("port record of unusual length")
			} else {
				p.port = binary.BigEndian.Uint16(body)
			}
		case 2:
			if p.verdict != c20Either {
				return c20Parsed{verdict: c20MustFail, why: "error record"}
			}
			return p
		case 3:
			// a warning may be refused or ignored; if it is ignored the rest of the stream still has to be proper
			mayFail = true
		default:
			if crit {
				if p.verdict != c20Either {
					return c20Parsed{verdict: c20MustFail, why: "unrecognised critical record"}
				}
				return p
			}
		}
		if p.verdict == c20Either {
			return p // after a non-canonical record the reader's framing is not determined by the statement
		}
		pos += 4 + n
	}
	switch {
	case !eom:
		return c20Parsed{verdict: c20MustFail, why: "no end-of-message record"}
	case len(p.cookies) == 0:
		return c20Parsed{verdict: c20MustFail, why: "no cookie"}
	case !haveAlgo || algo != 15:
		return c20Parsed{verdict: c20MustFail, why: "algorithm is not AES-SIV-CMAC-256"}
	}
	if mayFail && p.verdict == c20MustSucceed {
		p.verdict, p.why = c20Either, "warning record"
	}
	return p
}

type c20Case struct {
	class  string
	stream func(conn int) []byte
	cuts   func(n int) []int
	closeA int // -1: complete
	alpns  []string
}

func c20NewFetcher(srv netip.AddrPort) *ntske.Fetcher {
	f := &ntske.Fetcher{Log: slog.New(slog.DiscardHandler), Port: strconv.Itoa(int(srv.Port()))}
	f.TLSConfig = tls.Config{InsecureSkipVerify: true, ServerName: srv.Addr().String(), MinVersion: tls.VersionTLS13, NextProtos: []string{"ntske/1"}}
	return f
}

func c20Cookies(conn, k int) [][]byte {
	out := make([][]byte, k)
	for i := range out {
		out[i] = peer.TaggedCookie(conn, i, 100)
	}
	return out
}

func init() {
	register("C20", "fault_enumeration", func(r *ev.Run) {
		srvAddr := blockIP(r, 20, 1)
		rng := r.Rng("c20")
		var cur *c20Case
		var lastStream []byte
		srv, err := peer.NewNTSKEServer(netip.AddrPortFrom(srvAddr, 0), nil, nil)
		if err != nil {
			r.Inconclusive("scripted NTS-KE server: " + err.Error())
			r.Finish("", 0)
		}
		port := uint16(srv.L.Addr().(*net.TCPAddr).Port)
		srv.SetScript(func(c *peer.NTSKEConn) ([]byte, []int, int) {
			s := cur.stream(c.ID)
			lastStream = s
			var cuts []int
			if cur.cuts != nil {
				cuts = cur.cuts(len(s))
			}
			return s, cuts, cur.closeA
		})
		srvAP := netip.AddrPortFrom(srvAddr, port)

		// one exchange on a given fetcher; returns (ok, data, new connection opened)
		exchange := func(f *ntske.Fetcher, c *c20Case) (ntske.Data, error, *peer.NTSKEConn) {
			cur = c
			if c.alpns != nil {
				srv.SetALPNs(c.alpns)
			} else {
				srv.SetALPNs([]string{"ntske/1"})
			}
			before := srv.NumConns()
			ctx, cancel := context.WithTimeout(context.Background(), 10*time.Second)
			d, err := f.FetchData(ctx)
			cancel()
			srv.Wait()
			var conn *peer.NTSKEConn
			if cs := srv.Conns(); len(cs) > before {
				conn = cs[len(cs)-1]
			}
			return d, err, conn
		}
		// check one exchange on a fresh fetcher
		check := func(id string, c *c20Case) {
			if r.Only() != "" && r.Only() != id {
				return
			}
			f := c20NewFetcher(srvAP)
			var d ntske.Data
			var err error
			var conn *peer.NTSKEConn
			if p := c02Recover(func() { d, err, conn = exchange(f, c) }); p != nil {
				r.Violation("Fetcher.FetchData|panic|"+c.class, id, map[string]any{"panic": fmt.Sprint(p), "stream": ev.Hex(lastStream)})
				return
			}
			r.Eval(1)
			if conn == nil {
				r.Inconclusive("no connection reached the scripted server for case " + id)
				return
			}
			stream := lastStream
			sent := stream
			if c.closeA >= 0 && c.closeA < len(stream) {
				sent = stream[:c.closeA]
			}
			j := c20Judge(sent)
			if conn.ALPN != "ntske/1" {
				j = c20Parsed{verdict: c20MustFail, why: "application protocol ntske/1 not negotiated"}
			}
			w := map[string]any{"class": c.class, "stream_sent": ev.Hex(sent), "alpn": conn.ALPN, "expected": []string{"must fail", "must succeed", "either"}[j.verdict],
				"why": j.why, "error": fmt.Sprint(err)}
			if c.cuts != nil {
				w["write_cuts"] = c.cuts(len(stream))
			}
			r.Distinct(c.class + ev.Hex(sent) + fmt.Sprint(w["write_cuts"]))
			switch {
			case err == nil && j.verdict == c20MustFail:
				r.Violation("Fetcher.FetchData|wrong-value:key exchange succeeded although it must be refused: "+j.why+"|"+c.class, id, w)
				return
			case err != nil && j.verdict == c20MustSucceed:
				r.Violation("Fetcher.FetchData|wrong-value:conformant key exchange refused|"+c.class, id, w)
				return
			case err != nil:
				r.Class("refused:" + c.class)
			default:
				r.Class("accepted:" + c.class)
			}
			if err != nil || j.verdict != c20MustSucceed {
				return
			}
			// agreement
			if !bytes.Equal(d.C2sKey, conn.C2S) || !bytes.Equal(d.S2cKey, conn.S2C) || len(d.C2sKey) != 32 {
				r.Violation("Fetcher.FetchData|wrong-value:keys differ from the server's exporter values|"+c.class, id, w)
			}
			if d.Algo != 15 {
				r.Violation("Fetcher.FetchData|wrong-value:algorithm not recorded as AES-SIV-CMAC-256|"+c.class, id, w)
			}
			wantSrv, wantPort := srvAddr.String(), uint16(123)
			if j.server != "" {
				wantSrv = j.server
			}
			if j.port != 0 {
				wantPort = j.port
			}
			if d.Server != wantSrv || d.Port != wantPort {
				w["got_server"], w["got_port"], w["want_server"], w["want_port"] = d.Server, d.Port, wantSrv, wantPort
				r.Violation("Fetcher.FetchData|wrong-value:NTP server or port is not the one named in the exchange (or the default)|"+c.class, id, w)
			}
			// the pool is exactly the cookies issued, handed out in order, without a new connection
			pool := d.Cookie
			okPool := len(pool) == len(j.cookies)
			for i := 0; okPool && i < len(pool); i++ {
				okPool = bytes.Equal(pool[i], j.cookies[i])
			}
			if !okPool {
				w["pool_sizes"] = []int{len(pool), len(j.cookies)}
				r.Violation("Fetcher.FetchData|wrong-value:cookie pool is not exactly the cookies issued|"+c.class, id, w)
				return
			}
			n0 := srv.NumConns()
			for i := 1; i < len(j.cookies); i++ {
				di, e2 := f.FetchData(context.Background())
				if e2 != nil || len(di.Cookie) == 0 || !bytes.Equal(di.Cookie[0], j.cookies[i]) || srv.NumConns() != n0 {
					r.Violation("Fetcher.FetchData|wrong-value:cookies not handed out one by one in the order issued|"+c.class, id, w)
					break
				}
			}
			r.Class("agreement-checked")
		}

		mkValid := func(k int, server string, port uint16) func(int) []byte {
			return func(conn int) []byte { return peer.KEMessage(15, server, port, c20Cookies(conn, k)) }
		}
		n := 0
		id := func() string { n++; return fmt.Sprintf("x%d", n) }
		// ---- valid messages
		for k := 1; k <= 8; k++ {
			check(id(), &c20Case{class: "valid", stream: mkValid(k, "", 0), closeA: -1})
		}
		other := blockIP(r, 20, 7).String()
		check(id(), &c20Case{class: "valid,server-and-port-named", stream: mkValid(8, other, 10555), closeA: -1})
		check(id(), &c20Case{class: "valid,server-named", stream: mkValid(3, other, 0), closeA: -1})
		check(id(), &c20Case{class: "valid,port-named", stream: mkValid(3, "", 4123), closeA: -1})
		check(id(), &c20Case{class: "valid,ipv6-server-named", stream: mkValid(2, "::1", 123), closeA: -1})
		// ---- every segmentation point, one-byte writes, random multi-cuts
		base := mkValid(8, other, 10555)(0)
		stepCut := r.Pick(5, 1)
		for cut := 1; cut < len(base); cut += stepCut {
			c := cut
			check(id(), &c20Case{class: "valid,two-writes", stream: mkValid(8, other, 10555), cuts: func(int) []int { return []int{c} }, closeA: -1})
		}
		for k := 0; k < r.Pick(40, 2000); k++ {
			seed := rng.Uint64()
			check(id(), &c20Case{class: "valid,random-segmentation", stream: mkValid(1+k%8, "", 0), closeA: -1, cuts: func(n int) []int {
				lr := rand.New(rand.NewPCG(seed, 1))
				var cs []int
				for p := 1 + lr.IntN(40); p < n; p += 1 + lr.IntN(120) {
					cs = append(cs, p)
				}
				return cs
			}})
		}
		// ---- truncation (connection dropped) at every byte
		for cut := 0; cut < len(base); cut += r.Pick(3, 1) {
			check(id(), &c20Case{class: "dropped-mid-stream", stream: mkValid(8, other, 10555), closeA: cut})
		}
		// ---- records inserted at every position: error, warning, unknown critical / non-critical
		recs := func(conn int) [][]byte {
			out := [][]byte{peer.KERecord(1, true, []byte{0, 0}), peer.KERecord(4, true, []byte{0, 15})}
			for _, c := range c20Cookies(conn, 3) {
				out = append(out, peer.KERecord(5, false, c))
			}
			return out
		}
		join := func(rs [][]byte) []byte {
			var b []byte
			for _, x := range rs {
				b = append(b, x...)
			}
			return append(b, peer.KERecord(0, true, nil)...)
		}
		ins := map[string][]byte{
			"error-record":               peer.KERecord(2, true, []byte{0, 1}),
			"error-record-noncritical":   peer.KERecord(2, false, []byte{0, 2}),
			"error-record-unknown-code":  peer.KERecord(2, true, []byte{0x12, 0x34}),
			"warning-record":             peer.KERecord(3, true, []byte{0, 0}),
			"unknown-critical-record":    peer.KERecord(0x1234, true, []byte{1, 2, 3}),
			"unknown-noncritical-record": peer.KERecord(0x1234, false, []byte{1, 2, 3, 4, 5}),
			"unknown-noncritical-empty":  peer.KERecord(8, false, nil),
			"unknown-critical-type-8":    peer.KERecord(8, true, nil),
		}
		for name, rec := range ins {
			for pos := 0; pos <= 6; pos++ { // 5 records + after end-of-message
				name, rec, pos := name, rec, pos
				check(id(), &c20Case{class: name, closeA: -1, stream: func(conn int) []byte {
					rs := recs(conn)
					if pos == 6 {
						return append(join(rs), rec...)
					}
					rs = append(rs[:pos:pos], append([][]byte{rec}, rs[pos:]...)...)
					return join(rs)
				}})
			}
		}
		// ---- reorderings of the records
		perms := [][]int{{0, 1, 2, 3, 4}, {4, 3, 2, 1, 0}, {1, 0, 2, 3, 4}, {2, 3, 4, 0, 1}, {2, 0, 3, 1, 4}, {0, 2, 1, 4, 3}}
		if r.Thorough() {
			perms = nil
			var gen func(a []int, k int)
			gen = func(a []int, k int) {
				if k == len(a) {
					perms = append(perms, append([]int{}, a...))
					return
				}
				for i := k; i < len(a); i++ {
					a[k], a[i] = a[i], a[k]
					gen(a, k+1)
					a[k], a[i] = a[i], a[k]
				}
			}
			gen([]int{0, 1, 2, 3, 4}, 0)
		}
		for _, pm := range perms {
			pm := pm
			check(id(), &c20Case{class: "records-reordered", closeA: -1, stream: func(conn int) []byte {
				rs := recs(conn)
				out := make([][]byte, len(rs))
				for i, j := range pm {
					out[i] = rs[j]
				}
				return join(out)
			}})
		}
		// ---- bad offers
		check(id(), &c20Case{class: "no-cookie", closeA: -1, stream: func(int) []byte { return peer.KEMessage(15, "", 0, nil) }})
		for _, a := range []uint16{0, 1, 14, 16, 17, 30, 0xf00, 0xffff} {
			a := a
			check(id(), &c20Case{class: "other-algorithm", closeA: -1, stream: func(conn int) []byte { return peer.KEMessage(a, "", 0, c20Cookies(conn, 8)) }})
		}
		check(id(), &c20Case{class: "no-algorithm-record", closeA: -1, stream: func(conn int) []byte {
			return join(append([][]byte{peer.KERecord(1, true, []byte{0, 0})}, peer.KERecord(5, false, peer.TaggedCookie(conn, 0, 100))))
		}})
		check(id(), &c20Case{class: "no-end-of-message", closeA: -1, stream: func(conn int) []byte {
			m := peer.KEMessage(15, "", 0, c20Cookies(conn, 8))
			return m[:len(m)-4]
		}})
		check(id(), &c20Case{class: "empty-stream", closeA: -1, stream: func(int) []byte { return nil }})
		check(id(), &c20Case{class: "warning-then-no-end-of-message", closeA: -1, stream: func(conn int) []byte {
			m := peer.KEMessage(15, "", 0, c20Cookies(conn, 8))
			return append(m[:len(m)-4:len(m)-4], peer.KERecord(3, true, []byte{0, 1})...)
		}})
		for _, al := range [][]string{{"h2"}, {"ntske/2"}, {"http/1.1", "h2"}, {}} {
			check(id(), &c20Case{class: "alpn-without-ntske/1", alpns: al, closeA: -1, stream: mkValid(8, "", 0)})
		}
		for k := 0; k < r.Pick(60, 3000); k++ { // unusual lengths and random records: must not crash, verdict either way unless determined
			seed := rng.Uint64()
			check(id(), &c20Case{class: "random-records", closeA: -1, stream: func(conn int) []byte {
				lr := rand.New(rand.NewPCG(seed, 2))
				var b []byte
				for i := lr.IntN(8); i >= 0; i-- {
					t := uint16([]int{0, 1, 2, 3, 4, 5, 6, 7, 8, 100}[lr.IntN(10)])
					b = append(b, peer.KERecord(t, lr.IntN(2) == 0, randBytes(lr, lr.IntN(6)))...)
				}
				return b
			}})
		}

		// ---- sequences of failed and successful exchanges on one client
		failing := []*c20Case{
			{class: "cookies-then-error-record", closeA: -1, stream: func(conn int) []byte {
				rs := recs(conn)
				rs = append(rs, peer.KERecord(2, true, []byte{0, 2}))
				return join(rs)
			}},
			{class: "cookies-then-drop", closeA: 140, stream: mkValid(8, "", 0)},
			{class: "cookies-but-other-algorithm", closeA: -1, stream: func(conn int) []byte { return peer.KEMessage(17, "", 0, c20Cookies(conn, 4)) }},
			{class: "cookies-then-unknown-critical", closeA: -1, stream: func(conn int) []byte {
				return join(append(recs(conn), peer.KERecord(0x999, true, nil)))
			}},
			{class: "alpn-without-ntske/1", alpns: []string{"h2"}, closeA: -1, stream: mkValid(8, "", 0)},
			{class: "server-named-then-error", closeA: -1, stream: func(conn int) []byte {
				return join([][]byte{peer.KERecord(6, false, []byte(other)), peer.KERecord(7, false, []byte{0x11, 0x22}), peer.KERecord(2, true, []byte{0, 1})})
			}},
		}
		for sidx := 0; sidx < r.Pick(60, 3000); sidx++ {
			sid := fmt.Sprintf("q%d", sidx)
			if r.Only() != "" && r.Only() != sid {
				continue
			}
			f := c20NewFetcher(srvAP)
			var trace []string
			nFail := 1 + rng.IntN(3)
			bad := false
			for a := 0; a < nFail && !bad; a++ {
				fc := failing[rng.IntN(len(failing))]
				_, err, conn := exchange(f, fc)
				r.Eval(1)
				trace = append(trace, fmt.Sprintf("%s -> err=%v newconn=%v", fc.class, err, conn != nil))
				if err == nil {
					r.Violation("Fetcher.FetchData|wrong-value:key exchange succeeded although it must be refused|sequence:"+fc.class, sid, map[string]any{"trace": trace})
					bad = true
				}
				if conn == nil {
					r.Violation("Fetcher.FetchData|wrong-value:attempt after a failed exchange did not open a new connection|sequence:"+fc.class, sid, map[string]any{"trace": trace})
					bad = true
				}
			}
			if bad {
				continue
			}
			k := 1 + rng.IntN(8)
			good := &c20Case{class: "valid", stream: mkValid(k, "", 0), closeA: -1}
			d, err, conn := exchange(f, good)
			r.Eval(1)
			trace = append(trace, fmt.Sprintf("valid -> err=%v newconn=%v cookies=%d", err, conn != nil, len(d.Cookie)))
			w := map[string]any{"trace": trace}
			switch {
			case conn == nil:
				r.Violation("Fetcher.FetchData|wrong-value:attempt after a failed exchange did not perform a new exchange|sequence", sid, w)
			case err != nil:
				r.Violation("Fetcher.FetchData|wrong-value:conformant key exchange refused after failed ones|sequence", sid, w)
			default:
				want := c20Cookies(conn.ID, k)
				same := len(d.Cookie) == len(want)
				for i := 0; same && i < len(want); i++ {
					same = bytes.Equal(d.Cookie[i], want[i])
				}
				if !same || !bytes.Equal(d.C2sKey, conn.C2S) || !bytes.Equal(d.S2cKey, conn.S2C) || d.Server != srvAddr.String() || d.Port != 123 {
					w["got_cookies"], w["got_server"], w["got_port"] = len(d.Cookie), d.Server, d.Port
					r.Violation("Fetcher.FetchData|wrong-value:state of a failed exchange used by the next one|sequence", sid, w)
				} else {
					r.Class(fmt.Sprintf("sequence:%d-failures-then-success", nFail))
				}
			}
			r.Distinct(fmt.Sprint(trace))
		}

		// ---- a measurement of a superseded session answers late: its request took the last cookie of
		// session 1, another measurement on the same client exchanged keys again (session 2), then the
		// response of session 1 (authentic under the keys the first measurement still holds) arrives.
		// Afterwards every request must pair the keys of session 2 with a cookie issued in session 2.
		for lidx := 0; lidx < r.Pick(24, 600); lidx++ {
			lid := fmt.Sprintf("late%d", lidx)
			if r.Only() != "" && r.Only() != lid {
				continue
			}
			f := c20NewFetcher(srvAP)
			k1 := 1 + rng.IntN(3)
			d1, err, conn1 := exchange(f, &c20Case{class: "valid", stream: mkValid(k1, "", 0), closeA: -1})
			r.Eval(1)
			if err != nil || conn1 == nil {
				r.Inconclusive(fmt.Sprintf("late-response case %s: first exchange did not complete: %v", lid, err))
				continue
			}
			for i := 1; i < k1; i++ { // spend the rest of session 1
				ctx, cancel := context.WithTimeout(context.Background(), 10*time.Second)
				_, err = f.FetchData(ctx)
				cancel()
			}
			k2 := 1 + rng.IntN(7)
			d2, err, conn2 := exchange(f, &c20Case{class: "valid", stream: mkValid(k2, "", 0), closeA: -1})
			r.Eval(1)
			if err != nil || conn2 == nil || conn2 == conn1 {
				r.Inconclusive(fmt.Sprintf("late-response case %s: second exchange did not complete: %v", lid, err))
				continue
			}
			// the late response of session 1: cookies tagged with session 1's connection
			m := 1 + rng.IntN(8)
			late := make([][]byte, m)
			for i := range late {
				late[i] = peer.TaggedCookie(conn1.ID, 100+i, 100)
			}
			uid := randBytes(rng, 32)
			hdr := make([]byte, 48)
			hdr[0] = 0x24
			buf := peer.NTSResponse(hdr, uid, late, d1.S2cKey)
			var pkt nts.Packet
			perr := nts.DecodePacket(&pkt, buf)
			if perr == nil {
				perr = nts.ProcessResponse(buf, d1.S2cKey, f, &pkt, uid)
			}
			if perr != nil {
				r.Inconclusive(fmt.Sprintf("late-response case %s: the scripted late response was not accepted: %v", lid, perr))
				continue
			}
			// drain: every request until the next key exchange uses session 2's keys with session 2's cookies
			before := srv.NumConns()
			var used []string
			mixed := false
			for i := 0; i < 20; i++ {
				cur = &c20Case{class: "valid", stream: mkValid(1, "", 0), closeA: -1}
				ctx, cancel := context.WithTimeout(context.Background(), 10*time.Second)
				d, err := f.FetchData(ctx)
				cancel()
				srv.Wait()
				if err != nil || srv.NumConns() != before {
					break
				}
				cn, ci, ok := peer.ParseTaggedCookie(d.Cookie[0])
				used = append(used, fmt.Sprintf("cookie(conn=%d,idx=%d,ok=%v) with keys of conn %d", cn, ci, ok, map[bool]int{true: conn2.ID, false: -1}[bytes.Equal(d.C2sKey, conn2.C2S)]))
				if !bytes.Equal(d.C2sKey, conn2.C2S) || !bytes.Equal(d.S2cKey, conn2.S2C) || !ok || cn != conn2.ID {
					mixed = true
				}
				r.Eval(1)
			}
			_ = d2
			if mixed {
				r.Violation("Fetcher.StoreCookie|state:cookie of a superseded session kept next to the keys of the current one", lid,
					map[string]any{"session1_cookies": k1, "session2_cookies": k2, "late_response_cookies": m, "requests": used})
			} else {
				r.Class("late-response-of-superseded-session:cookies not kept")
			}
			r.Distinct(fmt.Sprintf("late:%d:%d:%d", k1, k2, m))
		}

		// ---- chains of complete exchanges on one client (one cookie each, so that every call re-keys):
		// each exchange must be judged and used on its own, nothing of an earlier one may survive
		type link struct {
			name   string
			server string
			port   uint16
			algo   int // 15, another value, or -1: no algorithm record
		}
		links := []link{{"named-server-and-port", other, 10555, 15}, {"defaults", "", 0, 15}, {"named-port", "", 4123, 15}, {"named-server", other, 0, 15},
			{"no-algorithm-record", "", 0, -1}, {"other-algorithm", "", 0, 17}, {"named-then-no-algorithm", other, 777, -1}}
		for ci := 0; ci < r.Pick(80, 3000); ci++ {
			cid := fmt.Sprintf("k%d", ci)
			if r.Only() != "" && r.Only() != cid {
				continue
			}
			f := c20NewFetcher(srvAP)
			var trace []string
			for step := 0; step < 2+rng.IntN(4); step++ {
				lk := links[rng.IntN(len(links))]
				if step == 0 {
					lk = links[rng.IntN(4)]
				}
				c := &c20Case{class: "chain:" + lk.name, closeA: -1, stream: func(conn int) []byte {
					if lk.algo == -1 {
						b := peer.KERecord(1, true, []byte{0, 0})
						if lk.server != "" {
							b = append(b, peer.KERecord(6, false, []byte(lk.server))...)
						}
						if lk.port != 0 {
							b = append(b, peer.KERecord(7, false, []byte{byte(lk.port >> 8), byte(lk.port)})...)
						}
						b = append(b, peer.KERecord(5, false, peer.TaggedCookie(conn, 0, 100))...)
						return append(b, peer.KERecord(0, true, nil)...)
					}
					return peer.KEMessage(uint16(lk.algo), lk.server, lk.port, c20Cookies(conn, 1))
				}}
				d, err, conn := exchange(f, c)
				r.Eval(1)
				trace = append(trace, fmt.Sprintf("%s -> err=%v newconn=%v server=%s port=%d", lk.name, err, conn != nil, d.Server, d.Port))
				w := map[string]any{"chain": trace}
				if conn == nil {
					r.Violation("Fetcher.FetchData|wrong-value:empty pool did not lead to a new key exchange|chain", cid, w)
					break
				}
				if lk.algo != 15 {
					if err == nil {
						r.Violation("Fetcher.FetchData|wrong-value:key exchange succeeded although it must be refused: algorithm is not AES-SIV-CMAC-256|chain:"+lk.name+" after earlier successes", cid, w)
						break
					}
					continue
				}
				if err != nil {
					r.Violation("Fetcher.FetchData|wrong-value:conformant key exchange refused|chain:"+lk.name, cid, w)
					break
				}
				wantSrv, wantPort := srvAddr.String(), uint16(123)
				if lk.server != "" {
					wantSrv = lk.server
				}
				if lk.port != 0 {
					wantPort = lk.port
				}
				if d.Server != wantSrv || d.Port != wantPort {
					r.Violation("Fetcher.FetchData|wrong-value:NTP server or port is not the one named in this exchange (or the default)|chain:"+lk.name+" after earlier exchanges", cid, w)
					break
				}
				if !bytes.Equal(d.C2sKey, conn.C2S) || !bytes.Equal(d.S2cKey, conn.S2C) || len(d.Cookie) != 1 || !bytes.Equal(d.Cookie[0], peer.TaggedCookie(conn.ID, 0, 100)) {
					r.Violation("Fetcher.FetchData|wrong-value:keys or cookies are not those of this exchange|chain:"+lk.name, cid, w)
					break
				}
				r.Class("chain-step:" + lk.name)
			}
			r.Distinct(fmt.Sprint(trace))
		}

		// ---- the NTP request after the exchange goes to the named server and port
		if r.Only() == "" {
			for _, named := range []bool{false, true} {
				ntpIP, ntpPort := srvAddr, uint16(123)
				if named {
					ntpIP, ntpPort = blockIP(r, 20, 9), 10999
				}
				uc, err := net.ListenUDP("udp", net.UDPAddrFromAddrPort(netip.AddrPortFrom(ntpIP, ntpPort)))
				if err != nil {
					r.Inconclusive("bind NTP peer: " + err.Error())
					continue
				}
				c := &client.IPClient{Log: slog.New(slog.DiscardHandler)}
				c.Auth.Enabled = true
				c.Auth.NTSKEFetcher = *c20NewFetcher(srvAP)
				srvName, p := "", uint16(0)
				if named {
					srvName, p = ntpIP.String(), ntpPort
				}
				cur = &c20Case{class: "valid", stream: mkValid(8, srvName, p), closeA: -1}
				registerScriptedRealClock()
				ctx, cancel := context.WithTimeout(context.Background(), 700*time.Millisecond)
				done := make(chan struct{})
				go func() {
					defer close(done)
					defer func() { recover() }()
					_, _, _ = client.MeasureClockOffsetIP(ctx, c.Log, c, &net.UDPAddr{IP: blockIP(r, 20, 2).AsSlice()}, &net.UDPAddr{IP: blockIP(r, 20, 99).AsSlice(), Port: 1})
				}()
				_ = uc.SetReadDeadline(time.Now().Add(5 * time.Second))
				buf := make([]byte, 2048)
				nrd, _, err := uc.ReadFromUDPAddrPort(buf)
				cancel()
				<-done
				uc.Close()
				r.Eval(1)
				cls := "ntp-request-to-key-exchange-host:123"
				if named {
					cls = "ntp-request-to-named-server-and-port"
				}
				if err != nil || nrd < 48 {
					r.Violation("MeasureClockOffsetIP|wrong-value:NTP request did not reach the server and port named in the exchange|"+cls, cls, map[string]any{"error": fmt.Sprint(err)})
				} else {
					r.Class(cls)
					if _, idx, ok := peer.ParseTaggedCookie(buf[48+36+4 : nrd]); !ok || idx != 0 {
						r.Violation("MeasureClockOffsetIP|wrong-value:first request does not carry the first cookie issued|"+cls, cls, map[string]any{"request": ev.Hex(buf[:nrd])})
					}
				}
			}
		}
		srv.Close()
		c20NamedHost(r)
		if r.Only() == "" || strings.HasPrefix(r.Only(), "quic") {
			c20QUIC(r)
		}
		c20RealServer(r)
		r.Sample(map[string]any{"conformant_stream": ev.Hex(mkValid(2, "", 0)(1)), "meaning": "next-protocol, algorithm 15, two cookies, end-of-message"})
		r.Assume("server records carry IP literals (no resolver in the sandbox); TLS 1.3 with a self-signed certificate and InsecureSkipVerify")
		r.Assume("verdict 'either' (not judged beyond crash-freedom): warning records, records of unusual length, anything after a non-canonical record")
		if r.Only() == "" || r.Only() == "main:c20wiring" {
			runMainLeg(r, "c20wiring")
		}
		r.Finish("scripted NTS-KE server streams against the real Fetcher: conformant messages with 1..8 cookies and server/port records; every two-write segmentation point and random multi-write segmentations; connection dropped at every byte; "+
			"error / warning / unknown critical / unknown non-critical records inserted at every record position incl. after end-of-message; record reorderings; no cookie, other algorithms, missing algorithm, missing end-of-message, empty stream, "+
			"server without ntske/1 in its ALPN list; random record soups; sequences of 1..3 failed exchanges (cookies then error/drop/other algorithm/unknown critical/no ALPN/server named then error) followed by a good one on the same client; "+
			"and the real IP client's first NTP request after the exchange. Oracle: success only when the statement allows it and always when it demands it; keys = the server's exporter values; pool = cookies issued, in order, without reconnecting; "+
			"server/port as named or default; every attempt after a failure opens a new connection and uses only its data. distinct_nontrivial = distinct (class, stream, segmentation) and distinct sequences", 12)
	})
}

// c20NamedHost: the key-exchange server is configured by name ("localhost"), and its answer names
// no NTP server: the default is the key-exchange host as an address the client can send to.
func c20NamedHost(r *ev.Run) {
	if ips, err := net.LookupHost("localhost"); err != nil || len(ips) == 0 {
		r.Class("named-key-exchange-host:name does not resolve here")
		return
	}
	lo := netip.MustParseAddr("127.0.0.1")
	ke, err := peer.NewNTSKEServer(netip.AddrPortFrom(lo, 0), nil, nil)
	if err != nil {
		r.Class("named-key-exchange-host:cannot bind 127.0.0.1")
		return
	}
	defer ke.Close()
	kePort := uint16(ke.L.Addr().(*net.TCPAddr).Port)
	for i, port := range []uint16{0, 4123} {
		id := fmt.Sprintf("named%d", i)
		if r.Only() != "" && r.Only() != id {
			continue
		}
		port := port
		ke.SetScript(func(c *peer.NTSKEConn) ([]byte, []int, int) {
			return peer.KEMessage(15, "", port, c20Cookies(c.ID, 8)), nil, -1
		})
		f := &ntske.Fetcher{Log: slog.New(slog.DiscardHandler), Port: strconv.Itoa(int(kePort))}
		f.TLSConfig = tls.Config{InsecureSkipVerify: true, ServerName: "localhost", MinVersion: tls.VersionTLS13, NextProtos: []string{"ntske/1"}}
		ctx, cancel := context.WithTimeout(context.Background(), 10*time.Second)
		d, err := f.FetchData(ctx)
		cancel()
		r.Eval(1)
		w := map[string]any{"key_exchange_server": fmt.Sprintf("localhost:%d", kePort), "port_record": port, "error": fmt.Sprint(err), "got_server": d.Server, "got_port": d.Port}
		if err != nil {
			r.Violation("Fetcher.FetchData|wrong-value:conformant exchange with a key-exchange server configured by name refused", id, w)
			continue
		}
		wantPort := uint16(123)
		if port != 0 {
			wantPort = port
		}
		ip := net.ParseIP(d.Server)
		if ip == nil || !ip.IsLoopback() || d.Port != wantPort {
			r.Violation("Fetcher.FetchData|wrong-value:NTP server or port is not the one named in the exchange (or the default)|key-exchange server configured by name, no server record", id, w)
			continue
		}
		r.Class("named-key-exchange-host:default NTP server is the address of the key-exchange host")
	}
}

// c20RealServer: the monitor as NTS-KE client of the project's own NTS-KE server (child
// process), with several algorithm offers. Agreement is observed behaviourally: a request
// authenticated with the client's exporter C2S key and a cookie from the exchange must be
// answered by the NTP listener with a reply that verifies under the client's S2C key.
func c20RealServer(r *ev.Run) {
	if r.Only() != "" {
		return
	}
	srvIP, cliIP := blockIP(r, 20, 31), blockIP(r, 20, 32)
	tgt, err := StartTarget("plain", "-ip", srvIP.String(), "-kinds", "ip,ntske")
	if err != nil {
		r.Inconclusive("target: " + err.Error())
		return
	}
	defer tgt.Kill()
	uc, err := peer.NewUDPClient(cliIP)
	if err != nil {
		r.Inconclusive(err.Error())
		return
	}
	defer uc.Close()
	offers := [][]uint16{{15}, {15, 17}, {17, 15}, {30, 17, 15}, {15, 15}, {1, 2, 3, 15}}
	for round := 0; round < r.Pick(3, 40); round++ {
		for _, offer := range offers {
			id := fmt.Sprintf("real.%v", offer)
			conn, err := tls.DialWithDialer(&net.Dialer{Timeout: 3 * time.Second}, "tcp", netip.AddrPortFrom(srvIP, 4460).String(),
				&tls.Config{InsecureSkipVerify: true, NextProtos: []string{"ntske/1"}, MinVersion: tls.VersionTLS13})
			if err != nil {
				r.Inconclusive("dial the target's NTS-KE server: " + err.Error())
				return
			}
			_ = conn.SetDeadline(time.Now().Add(5 * time.Second))
			var body []byte
			for _, a := range offer {
				body = append(body, byte(a>>8), byte(a))
			}
			req := append(append(peer.KERecord(1, true, []byte{0, 0}), peer.KERecord(4, true, body)...), peer.KERecord(0, true, nil)...)
			_, _ = conn.Write(req)
			var resp []byte
			buf := make([]byte, 4096)
			for {
				n, err := conn.Read(buf)
				resp = append(resp, buf[:n]...)
				if err != nil || (len(resp) >= 4 && bytes.HasSuffix(resp, []byte{0x80, 0, 0, 0})) {
					break
				}
			}
			cs := conn.ConnectionState()
			s2c, _ := cs.ExportKeyingMaterial("EXPORTER-network-time-security", []byte{0, 0, 0, 15, 1}, 32)
			c2s, _ := cs.ExportKeyingMaterial("EXPORTER-network-time-security", []byte{0, 0, 0, 15, 0}, 32)
			conn.Close()
			r.Eval(1)
			j := c20Judge(resp)
			w := map[string]any{"offer": offer, "server_message": ev.Hex(resp)}
			if j.verdict != c20MustSucceed || len(j.cookies) != 8 {
				r.Violation("ntske-tls-server|wrong-reply:server message is not next-protocol, AES-SIV-CMAC-256, 8 cookies, end of message|offer with several algorithms", id, w)
				continue
			}
			port := j.port
			if port == 0 {
				port = 123
			}
			dst := netip.AddrPortFrom(srvIP, port)
			if j.server != "" {
				if a, err := netip.ParseAddr(j.server); err == nil {
					dst = netip.AddrPortFrom(a, port)
				}
			}
			ok := 0
			for ci, ck := range j.cookies {
				if ci > 2 {
					break
				}
				hdr := peer.NTPRequest(peer.UniqueTime64())
				uid := randBytes(rand.New(rand.NewPCG(uint64(round), uint64(ci))), 32)
				_ = uc.Send(dst, peer.NTSRequest(hdr, uid, ck, 0, c2s))
				tx := binary.BigEndian.Uint64(hdr[40:])
				_, hit := uc.ReadUntil(3*time.Second, func(d peer.Datagram) bool { return peer.NTPOrigin(d.Data) == tx })
				if hit == nil {
					r.Violation("ntske-tls-server|wrong-value:request under the client's exporter key and an issued cookie is not answered (keys in the cookie differ)|offer "+fmt.Sprint(len(offer))+" algorithms, 15 "+map[bool]string{true: "first", false: "not first"}[offer[0] == 15], id, w)
					break
				}
				if _, problem := peer.NTSOpenResponse(hit.Data, s2c, uid); problem != "" {
					w["problem"] = problem
					r.Violation("ntske-tls-server|wrong-value:reply does not verify under the client's exporter key|offer", id, w)
					break
				}
				ok++
			}
			if ok > 0 {
				r.Class(fmt.Sprintf("real-server-agreement:offer-of-%d,15-first=%v", len(offer), offer[0] == 15))
			}
		}
	}
}

// c20QUIC: the same history clause over SCION/QUIC (same ISD-AS, no daemon): a scripted
// key-exchange server on the project's own QUIC-over-SCION transport answers the n-th
// connection with the n-th record stream. Oracle as for TLS: defaults when no server/port
// record is sent, nothing of an earlier exchange in a later one, keys = the server's
// exporter values.
// c20Stall ends a scripted answer after which the server stops talking without closing the stream.
var c20Stall = peer.KERecord(0x7f01, false, []byte("stall"))

func c20QUIC(r *ev.Run) {
	ia, _ := addr.ParseIA("1-ff00:0:110")
	srvIP, cliIP := blockIP(r, 20, 41), blockIP(r, 20, 42)
	probe, err := net.ListenUDP("udp", &net.UDPAddr{IP: srvIP.AsSlice()})
	if err != nil {
		r.Inconclusive("bind: " + err.Error())
		return
	}
	port := probe.LocalAddr().(*net.UDPAddr).Port
	probe.Close()
	cert, err := peer.SelfSignedCert(srvIP.AsSlice())
	if err != nil {
		r.Inconclusive(err.Error())
		return
	}
	srvAddr := udp.UDPAddr{IA: ia, Host: &net.UDPAddr{IP: srvIP.AsSlice(), Port: port}}
	l, err := scion.ListenQUIC(context.Background(), srvAddr, &tls.Config{Certificates: []tls.Certificate{cert}, NextProtos: []string{"ntske/1"}, MinVersion: tls.VersionTLS13}, nil)
	if err != nil {
		r.Inconclusive("quic listener: " + err.Error())
		return
	}
	defer l.Close()
	var mu sync.Mutex
	var scripts [][]byte
	var c2s, s2c [][]byte
	served := 0
	go func() {
		for {
			conn, err := l.Accept(context.Background())
			if err != nil {
				return
			}
			go func() {
				stream, err := conn.AcceptStream(context.Background())
				if err != nil {
					return
				}
				req := make([]byte, 0, 64)
				b := make([]byte, 64)
				for !bytes.HasSuffix(req, []byte{0x80, 0x00, 0x00, 0x00}) {
					n, err := stream.Read(b)
					req = append(req, b[:n]...)
					if err != nil {
						return
					}
				}
				var d ntske.Data
				_ = ntske.ExportKeys(conn.ConnectionState().TLS, &d)
				mu.Lock()
				// connections beyond the scripted chain: a conformant answer that names another NTP port
				script := peer.KEMessage(15, "", 7777, c20Cookies(100+served, 8))
				if served < len(scripts) {
					script = scripts[served]
				}
				served++
				c2s, s2c = append(c2s, d.C2sKey), append(s2c, d.S2cKey)
				mu.Unlock()
				_, _ = stream.Write(script)
				if bytes.HasSuffix(script, c20Stall) {
					// a server that stops talking with the stream open (the marker is an unknown non-critical
					// record, so what was sent before it is all the client can go by)
					time.Sleep(9 * time.Second)
				}
				_ = stream.Close()
				_, _ = io.Copy(io.Discard, stream)
			}()
		}
	}()
	other := blockIP(r, 20, 43).String()
	type step struct {
		name       string
		stream     []byte
		ok         bool
		srv        string
		port       uint16
		useCookies int // cookies to draw after a successful exchange (empties the pool when 8)
	}
	def := srvIP.String()
	steps := []step{
		{"named server and port", peer.KEMessage(15, other, 7777, c20Cookies(1, 8)), true, other, 7777, 8},
		{"no algorithm record", func() []byte {
			var b []byte
			b = append(b, peer.KERecord(1, true, []byte{0, 0})...)
			for _, c := range c20Cookies(2, 8) {
				b = append(b, peer.KERecord(5, false, c)...)
			}
			return append(b, peer.KERecord(0, true, nil)...)
		}(), false, "", 0, 0},
		{"no server and no port record", peer.KEMessage(15, "", 0, c20Cookies(3, 8)), true, def, 10123, 8},
		{"error record after the cookies", append(peer.KEMessage(15, other, 7777, c20Cookies(4, 8))[:len(peer.KEMessage(15, other, 7777, c20Cookies(4, 8)))-4], append(peer.KERecord(2, true, []byte{0, 1}), peer.KERecord(0, true, nil)...)...), false, "", 0, 0},
		{"defaults again", peer.KEMessage(15, "", 0, c20Cookies(5, 8)), true, def, 10123, 8},
		{"algorithm and cookies, then silence with the stream open", func() []byte {
			m := peer.KEMessage(15, other, 7777, c20Cookies(6, 8))
			return append(m[:len(m)-4], c20Stall...) // without the end-of-message record
		}(), false, "", 0, 0},
		{"and a conformant exchange after it", peer.KEMessage(15, "", 0, c20Cookies(7, 8)), true, def, 10123, 8},
	}
	for _, st := range steps {
		scripts = append(scripts, st.stream)
	}
	f := &ntske.Fetcher{Log: slog.New(slog.DiscardHandler), Port: strconv.Itoa(port)}
	f.TLSConfig = tls.Config{InsecureSkipVerify: true, ServerName: srvIP.String(), MinVersion: tls.VersionTLS13, NextProtos: []string{"ntske/1"}}
	f.QUIC.Enabled = true
	f.QUIC.LocalAddr = udp.UDPAddr{IA: ia, Host: &net.UDPAddr{IP: cliIP.AsSlice()}}
	f.QUIC.RemoteAddr = srvAddr
	for i, st := range steps {
		id := fmt.Sprintf("quic%d", i)
		ctx, cancel := context.WithTimeout(context.Background(), 10*time.Second)
		if strings.Contains(st.name, "silence") {
			cancel()
			ctx, cancel = context.WithCancel(context.Background()) // a caller without a deadline of its own: the fetcher's timeout applies
		}
		d, err := f.FetchData(ctx)
		cancel()
		r.Eval(1)
		mu.Lock()
		n := served
		var kc, ks []byte
		if n > 0 && n <= len(c2s) {
			kc, ks = c2s[n-1], s2c[n-1]
		}
		mu.Unlock()
		w := map[string]any{"exchange": i + 1, "stream": st.name, "error": fmt.Sprint(err), "server": d.Server, "port": d.Port, "algo": d.Algo, "connections_seen": n}
		if n != i+1 {
			r.Violation("Fetcher.FetchData(QUIC)|wrong-value:attempt did not open a new connection (or opened more than one)|chain over SCION/QUIC", id, w)
			return
		}
		if !st.ok {
			if err == nil {
				r.Violation("Fetcher.FetchData(QUIC)|wrong-value:exchange that must fail succeeded|"+st.name, id, w)
				return
			}
			r.Class("quic-chain:refused:" + st.name)
			continue
		}
		if err != nil {
			r.Violation("Fetcher.FetchData(QUIC)|wrong-value:conformant exchange refused|"+st.name, id, w)
			return
		}
		if !bytes.Equal(d.C2sKey, kc) || !bytes.Equal(d.S2cKey, ks) || d.Algo != 15 {
			r.Violation("Fetcher.FetchData(QUIC)|wrong-value:keys differ from the server's exporter values|"+st.name, id, w)
		}
		if d.Server != st.srv || d.Port != st.port {
			w["want_server"], w["want_port"] = st.srv, st.port
			r.Violation("Fetcher.FetchData(QUIC)|wrong-value:NTP server or port is not the one named in this exchange (or the default)|"+st.name, id, w)
			return
		}
		r.Class("quic-chain:accepted:" + st.name)
		for k := 1; k < st.useCookies; k++ {
			if _, err := f.FetchData(context.Background()); err != nil {
				r.Violation("Fetcher.FetchData(QUIC)|wrong-value:pool of an accepted exchange not handed out|"+st.name, id, w)
				return
			}
		}
	}
	// ---- the SCION daemon behind the key exchange.  (a) A key-exchange server in another AS and a daemon
	// that cannot be reached before the caller's deadline (restart, or an exchange begun just before the
	// deadline): the exchange must fail, not take the process down.  (b) Exchanges must not leave
	// connections to the daemon open: a peer that keeps the client re-keying sets the rate.
	if r.Only() == "" || r.Only() == "quic-daemon" {
		oia, _ := addr.ParseIA("1-ff00:0:111")
		dead, _ := net.Listen("tcp", net.JoinHostPort(cliIP.String(), "0"))
		deadAddr := dead.Addr().String()
		dead.Close()
		g := &ntske.Fetcher{Log: slog.New(slog.DiscardHandler), Port: strconv.Itoa(port)}
		g.TLSConfig = tls.Config{InsecureSkipVerify: true, ServerName: srvIP.String(), MinVersion: tls.VersionTLS13, NextProtos: []string{"ntske/1"}}
		g.QUIC.Enabled = true
		g.QUIC.DaemonAddr = deadAddr
		g.QUIC.LocalAddr = udp.UDPAddr{IA: oia, Host: &net.UDPAddr{IP: cliIP.AsSlice()}}
		g.QUIC.RemoteAddr = srvAddr
		for k := 0; k < 3; k++ {
			var err error
			ctx, cancel := context.WithTimeout(context.Background(), 300*time.Millisecond)
			pnc := c02Recover(func() { _, err = g.FetchData(ctx) })
			cancel()
			r.Eval(1)
			if pnc != nil {
				r.Violation("Fetcher.FetchData(QUIC)|panic|key-exchange server in another AS, SCION daemon unreachable", "quic-daemon", map[string]any{"panic": fmt.Sprint(pnc), "attempt": k + 1})
				break
			}
			if err == nil {
				r.Violation("Fetcher.FetchData(QUIC)|wrong-value:exchange that must fail succeeded|SCION daemon unreachable", "quic-daemon", nil)
				break
			}
			r.Class("quic-daemon:unreachable->error")
		}
		fd, err := peer.NewFakeDaemon(net.JoinHostPort(cliIP.String(), "0"), []byte("c20"), time.Hour)
		if err != nil {
			r.Inconclusive("fake daemon: " + err.Error())
		} else {
			fd.LocalIA = uint64(ia)
			h := &ntske.Fetcher{Log: slog.New(slog.DiscardHandler), Port: strconv.Itoa(port)}
			h.TLSConfig = tls.Config{InsecureSkipVerify: true, ServerName: srvIP.String(), MinVersion: tls.VersionTLS13, NextProtos: []string{"ntske/1"}}
			h.QUIC.Enabled = true
			h.QUIC.DaemonAddr = fd.Addr()
			h.QUIC.LocalAddr = udp.UDPAddr{IA: ia, Host: &net.UDPAddr{IP: cliIP.AsSlice()}}
			h.QUIC.RemoteAddr = srvAddr
			const exchanges = 12
			okN := 0
			for k := 0; k < exchanges; k++ {
				ctx, cancel := context.WithTimeout(context.Background(), 5*time.Second)
				_, err := h.FetchData(ctx)
				cancel()
				r.Eval(1)
				if err == nil {
					okN++
					for j := 1; j < 8; j++ { // spend the pool: the next call exchanges keys again
						_, _ = h.FetchData(context.Background())
					}
				}
			}
			time.Sleep(200 * time.Millisecond)
			if live := fd.LiveConns(); live > 2 {
				r.Violation("Fetcher.FetchData(QUIC)|state:connections to the SCION daemon left open by key exchanges", "quic-daemon",
					map[string]any{"key_exchanges": exchanges, "successful": okN, "daemon_connections_open_afterwards": live})
			} else {
				r.Class(fmt.Sprintf("quic-daemon:%d key exchanges leave no daemon connection open", exchanges))
			}
			fd.Close()
		}
	}
	// ---- the real SCION client wired the way the time service wires it: the address it is asked to
	// measure against is also the address of its key-exchange server. The exchange names another NTP
	// port; nobody answers there, so every measurement spends a cookie, and when the pool is empty
	// the client must come back to the key-exchange server for a new exchange.
	mu.Lock()
	before := served
	mu.Unlock()
	remote := udp.UDPAddr{IA: ia, Host: &net.UDPAddr{IP: srvIP.AsSlice(), Port: port}}
	local := udp.UDPAddr{IA: ia, Host: &net.UDPAddr{IP: cliIP.AsSlice()}}
	c := &client.SCIONClient{Log: slog.New(slog.DiscardHandler)}
	c.Auth.NTSEnabled = true
	c.Auth.NTSKEFetcher.TLSConfig = tls.Config{InsecureSkipVerify: true, ServerName: srvIP.String(), MinVersion: tls.VersionTLS13, NextProtos: []string{"ntske/1"}}
	c.Auth.NTSKEFetcher.Port = strconv.Itoa(port)
	c.Auth.NTSKEFetcher.Log = slog.New(slog.DiscardHandler)
	c.Auth.NTSKEFetcher.QUIC.Enabled = true
	c.Auth.NTSKEFetcher.QUIC.LocalAddr = local
	c.Auth.NTSKEFetcher.QUIC.RemoteAddr = remote
	pth := snetpath.Path{Src: ia, Dst: ia, DataplanePath: snetpath.Empty{}, NextHop: remote.Host}
	// a socket where the exchange says the NTP server is (same host, port 7777): in the client's own AS
	// the datagram itself has to go there, not only the addresses in its SCION header
	var atNamed atomic.Int64
	named, nerr := net.ListenUDP("udp", &net.UDPAddr{IP: srvIP.AsSlice(), Port: 7777})
	if nerr == nil {
		defer named.Close()
		go func() {
			b := make([]byte, 2048)
			for {
				n, _, err := named.ReadFromUDP(b)
				if err != nil {
					return
				}
				if n > 0 {
					atNamed.Add(1)
				}
			}
		}()
	}
	for k := 0; k < 12; k++ {
		ctx, cancel := context.WithTimeout(context.Background(), 400*time.Millisecond)
		_ = c02Recover(func() {
			_, _, _ = client.MeasureClockOffsetSCION(ctx, slog.New(slog.DiscardHandler), []*client.SCIONClient{c}, local, remote, []snet.Path{pth})
		})
		cancel()
		r.Eval(1)
	}
	mu.Lock()
	after := served
	mu.Unlock()
	w := map[string]any{"measurement_calls": 12, "key_exchanges_seen": after - before, "address_object_after": remote.Host.String(), "key_exchange_server": fmt.Sprintf("%s:%d", srvIP, port)}
	if after-before < 2 {
		r.Violation("scion-client|wrong-value:client with an empty cookie pool does not return to its key-exchange server (its address was overwritten with the NTP server named in the first exchange)", "quic-rekey", w)
	} else {
		r.Class("quic-rekey:client returns to the key-exchange server when its pool is empty")
	}
	switch {
	case nerr != nil:
		r.Class("quic-rekey:no socket at the named port (" + nerr.Error() + ")")
	case after-before >= 1 && atNamed.Load() == 0:
		w["datagrams_at_named_port"] = 0
		r.Violation("scion-client|wrong-value:NTP request did not reach the server and port named in the exchange|server in the client's own AS", "quic-rekey", w)
	default:
		r.Class("quic-rekey:NTP requests arrive at the port named in the exchange")
	}
	if remote.Host.Port != port {
		r.Violation("scion-client|state:the caller's address object was overwritten with the server and port named in the key exchange", "quic-rekey", w)
	}
}
