package monitors

import (
	"context"
	crand "crypto/rand"
	"encoding/binary"
	"example.com/scion-time/net/scion"
	"fmt"
	"github.com/scionproto/scion/pkg/addr"
	sdpb "github.com/scionproto/scion/pkg/proto/daemon"
	"io"
	"log/slog"
	"math"
	"math/rand/v2"
	"net"
	"net/netip"
	"slices"
	"sort"
	"strings"
	"sync"
	"time"

	"github.com/scionproto/scion/pkg/snet"
	snetpath "github.com/scionproto/scion/pkg/snet/path"

	"example.com/scion-time/base/crypto"
	"example.com/scion-time/core/client"
	"example.com/scion-time/net/ntp"
	"example.com/scion-time/net/udp"

	"verif/harness/internal/ev"
	"verif/harness/internal/peer"
)

// C15 — multipath SCION measurement probes pairwise distinct paths, combined by FTM.
//   part 1: crypto.Sample / RandIntn with crypto/rand.Reader replaced by a scripted word source
//   part 2: the real MeasureClockOffsetSCION with 1..9 clients (told apart in-band by their DSCP)
//           and 0..12 offered paths, each path's next hop being its own scripted server with
//           its own clock offset; race detector on

// wordSource feeds scripted 32-bit words (little endian) to crypto/rand.Read.
type wordSource struct {
	next func() uint32
	n    int64
}

func (w *wordSource) Read(b []byte) (int, error) {
	for i := 0; i+4 <= len(b); i += 4 {
		binary.LittleEndian.PutUint32(b[i:], w.next())
		w.n++
	}
	return len(b), nil
}

func chi2Critical(df int, z float64) float64 { // Wilson-Hilferty
	k := float64(df)
	t := 1 - 2/(9*k) + z*math.Sqrt(2/(9*k))
	return k * t * t * t
}

func c15Sample(r *ev.Run) {
	orig := crand.Reader
	defer func() { crand.Reader = orig }()
	rng := r.Rng("c15/sample")
	ctx := context.Background()
	// ---- structural: returns min(k,n), assignment injective into [0,n), RandIntn in range
	src := &wordSource{next: func() uint32 { return rng.Uint32() }}
	crand.Reader = src
	for i := 0; i < r.Pick(60000, 3000000); i++ {
		k, n := rng.IntN(14), rng.IntN(14)
		if rng.IntN(50) == 0 {
			n = rng.IntN(300)
		}
		// adversarial words now and then: small values are the ones rejection sampling rejects
		if rng.IntN(4) == 0 {
			cnt := 0
			src.next = func() uint32 {
				cnt++
				if cnt <= 3 {
					return uint32(rng.IntN(8))
				}
				return rng.Uint32()
			}
		} else {
			src.next = func() uint32 { return rng.Uint32() }
		}
		sel := map[int]int{}
		bad := ""
		var got int
		var err error
		pnc := c02Recover(func() {
			got, err = crypto.Sample(ctx, k, n, func(dst, src int) {
				if dst < 0 || dst >= min(k, n) || src < 0 || src >= n {
					bad = fmt.Sprintf("pick(%d,%d) out of range", dst, src)
				}
				sel[dst] = src
			})
		})
		r.Eval(1)
		w := map[string]any{"k": k, "n": n, "returned": got, "assignment": fmt.Sprint(sel)}
		if pnc != nil {
			w["panic"] = fmt.Sprint(pnc)
			r.Violation("crypto.Sample|panic", fmt.Sprintf("s%d", i), w)
			if r.NumViolations() > 3 {
				return
			}
			continue
		}
		if err != nil || got != min(k, n) {
			r.Violation("crypto.Sample|wrong-value:does not return min(k,n)", fmt.Sprintf("s%d", i), w)
			continue
		}
		seen := map[int]bool{}
		for d := 0; d < got; d++ {
			s, ok := sel[d]
			if !ok || seen[s] {
				bad = "final assignment not injective or incomplete"
			}
			seen[s] = true
		}
		if bad != "" {
			w["problem"] = bad
			r.Violation("crypto.Sample|wrong-value:"+firstWord(bad), fmt.Sprintf("s%d", i), w)
		}
	}
	r.Class("sample:structure")
	// ---- RandIntn: in range; words at or below the rejection threshold are retried
	for _, n := range []int{1, 2, 3, 5, 6, 7, 10, 12, 100, 1000, 1 << 20, 1<<31 - 1, 3 << 29} {
		t := uint32((uint64(1) << 32) % uint64(n))
		for _, first := range []uint32{0, 1, t - 1, t, t + 1, t + 2, 0xffffffff, 0x80000000, uint32(n), uint32(n) - 1} {
			words := []uint32{first, 0xdeadbeef, 0x12345678}
			idx := 0
			src.next = func() uint32 { w := words[min(idx, 2)]; idx++; return w }
			v, err := crypto.RandIntn(ctx, n)
			r.Eval(1)
			w := map[string]any{"n": n, "first_word": first, "threshold": t, "result": v, "words_consumed": idx}
			if err != nil || v < 0 || v >= n {
				r.Violation("crypto.RandIntn|wrong-value:result outside [0,n)", fmt.Sprintf("r%d.%d", n, first), w)
			}
			// a word that would bias the result (below 2^32 mod n) must not be used; a word above the threshold must be
			if n >= 2 && first < t && idx < 2 {
				r.Violation("crypto.RandIntn|wrong-value:word below the rejection threshold was not retried", fmt.Sprintf("r%d.%d", n, first), w)
			}
			if n >= 2 && first > t && (idx != 1 || v != int(first%uint32(n))) {
				r.Violation("crypto.RandIntn|wrong-value:accepted word not reduced modulo n", fmt.Sprintf("r%d.%d", n, first), w)
			}
		}
	}
	r.Class("randintn:threshold-and-range")
	// ---- uniformity of the chosen subsets with a uniform word source (chi-square, deterministic per seed)
	src.next = func() uint32 { return rng.Uint32() }
	for _, kn := range [][2]int{{1, 2}, {1, 3}, {2, 3}, {2, 4}, {1, 5}, {3, 5}, {2, 6}, {3, 7}, {1, 12}} {
		k, n := kn[0], kn[1]
		counts := map[string]int{}
		trials := r.Pick(40000, 1000000)
		for i := 0; i < trials; i++ {
			sel := make([]int, k)
			_, _ = crypto.Sample(ctx, k, n, func(dst, src int) { sel[dst] = src })
			sort.Ints(sel)
			counts[fmt.Sprint(sel)]++
		}
		r.Eval(int64(trials))
		cells := 1
		for i := 0; i < k; i++ {
			cells = cells * (n - i) / (i + 1)
		}
		exp := float64(trials) / float64(cells)
		chi := 0.0
		for _, c := range counts {
			chi += (float64(c) - exp) * (float64(c) - exp) / exp
		}
		chi += float64(cells-len(counts)) * exp
		crit := chi2Critical(cells-1, 6.0) // p ~ 1e-9
		w := map[string]any{"k": k, "n": n, "trials": trials, "subsets_possible": cells, "subsets_seen": len(counts), "chi_square": chi, "critical": crit}
		if len(counts) != cells || chi > crit {
			r.Violation("crypto.Sample|wrong-value:chosen subsets are not uniformly distributed", fmt.Sprintf("u%d.%d", k, n), w)
		} else {
			r.Class("sample:uniform-subsets")
		}
		if k == 2 && n == 4 {
			r.Sample(w)
		}
	}
	// ---- thorough: enumerate all 2^32 words for n = 3: accepted residues balanced to within 2
	if r.Thorough() {
		for _, n := range []int{3} {
			var cnt [8]int64
			var x uint64
			rejected := int64(0)
			src.next = func() uint32 { v := uint32(x); x++; return v }
			for x < 1<<32 {
				before := x
				v, _ := crypto.RandIntn(ctx, n)
				rejected += int64(x-before) - 1
				if x <= 1<<32 {
					cnt[v]++
				}
			}
			lo, hi := cnt[0], cnt[0]
			for _, c := range cnt[:n] {
				lo, hi = min(lo, c), max(hi, c)
			}
			r.Eval(1 << 32)
			w := map[string]any{"n": n, "residue_counts": cnt[:n], "rejected_words": rejected}
			if hi-lo > 2 {
				r.Violation("crypto.RandIntn|wrong-value:residues over all 2^32 words unbalanced by more than 2", fmt.Sprintf("e%d", n), w)
			}
			r.Set("exhaustive_subspaces", []string{"all 2^32 random words for n=3: residue counts " + fmt.Sprint(cnt[:n])})
			r.Class("randintn:all-words-enumerated")
		}
	}
}

// ---- part 2

type spyFilter struct {
	mu     sync.Mutex
	resets int
	dos    int
}

func (f *spyFilter) Do(t0, t1, t2, t3 time.Time) time.Duration {
	f.mu.Lock()
	f.dos++
	f.mu.Unlock()
	return ntp.ClockOffset(t0, t1, t2, t3)
}
func (f *spyFilter) Reset() { f.mu.Lock(); f.resets++; f.mu.Unlock() }

type c15Obs struct {
	dscp        int
	path        int
	interleaved bool
}

type c15Net struct {
	mu    sync.Mutex
	obs   []c15Obs
	theta []time.Duration
	srvs  []*peer.NTPServer
	paths []snet.Path
	srvIP netip.Addr
	state map[[2]int][2]uint64 // (dscp, path) -> last (rx, tx) reported
	bad   map[int]bool         // paths whose server answers with an unusable (stratum 0) response this round
	bad1  map[int]bool         // paths whose server answers a client's first request of this round with an unusable response, later ones well
	nreq  map[[2]int]int       // (dscp, path) -> requests seen this round
	basic bool                 // servers without interleaved support: every answer is a basic-mode response
}

func (nw *c15Net) handler(pi int) func(s *peer.NTPServer, dg []byte, from netip.AddrPort, rx time.Time) {
	return func(s *peer.NTPServer, dg []byte, from netip.AddrPort, rx time.Time) {
		ps, err := peer.ParseSCION(dg)
		if err != nil || !ps.HasUDP {
			return
		}
		f, ok := peer.ParseNTP(ps.UDP.Payload)
		if !ok {
			return
		}
		dscp := int(ps.SCION.TrafficClass >> 2)
		inter := f.Origin != 0 && f.Receive != f.Transmit
		nw.mu.Lock()
		nw.obs = append(nw.obs, c15Obs{dscp, pi, inter})
		th := nw.theta[pi]
		st := nw.state[[2]int{dscp, pi}]
		nw.mu.Unlock()
		now := time.Now()
		fl := peer.NTPFields{LVM: 0x24, Stratum: 1, Precision: -30, Origin: f.Transmit, Receive: peer.ToNTP64(rx.Add(th)), Transmit: peer.ToNTP64(now.Add(th))}
		nw.mu.Lock()
		nw.nreq[[2]int{dscp, pi}]++
		if nw.bad[pi] || nw.bad1[pi] && nw.nreq[[2]int{dscp, pi}] == 1 {
			fl.Stratum = 0
		}
		nw.mu.Unlock()
		nw.mu.Lock()
		basicOnly := nw.basic
		nw.mu.Unlock()
		if inter && st[0] == f.Origin && !basicOnly {
			fl.Origin, fl.Transmit = f.Receive, st[1]
		}
		nw.mu.Lock()
		nw.state[[2]int{dscp, pi}] = [2]uint64{fl.Receive, peer.ToNTP64(now.Add(th))}
		nw.mu.Unlock()
		srcH, _ := ps.SCION.SrcAddr()
		pkt := &peer.SCIONPkt{SrcIA: ps.SCION.DstIA, DstIA: ps.SCION.SrcIA, SrcHost: nw.srvIP, DstHost: srcH.IP(),
			SrcPort: ps.UDP.DstPort, DstPort: ps.UDP.SrcPort, Payload: fl.Bytes(), TrafficClass: ps.SCION.TrafficClass}
		if rev, err := ps.SCION.Path.Reverse(); err == nil {
			pkt.Path = rev
		}
		if b, err := pkt.Serialize(); err == nil {
			s.Send(from, b)
		}
	}
}

func c15Rounds(r *ev.Run) {
	registerScriptedRealClock()
	rng := r.Rng("c15/rounds")
	log := slog.New(slog.DiscardHandler)
	srvIP, cliIP := blockIP(r, 15, 1), blockIP(r, 15, 2)
	const nPaths = 12
	nw := &c15Net{srvIP: srvIP, state: map[[2]int][2]uint64{}, nreq: map[[2]int]int{}}
	for p := 0; p < nPaths; p++ {
		nw.theta = append(nw.theta, time.Duration(p+1)*100*time.Second)
		s, err := peer.NewNTPServer(netip.AddrPortFrom(srvIP, 0), nw.handler(p))
		if err != nil {
			r.Inconclusive("bind: " + err.Error())
			return
		}
		nw.srvs = append(nw.srvs, s)
		nw.paths = append(nw.paths, handPath(rng, c05LIA, c05RIA, s.Addr, p))
	}
	defer func() {
		for _, s := range nw.srvs {
			s.Close()
		}
	}()
	la := func() udp.UDPAddr { return udp.UDPAddr{IA: c05LIA, Host: &net.UDPAddr{IP: cliIP.AsSlice()}} }
	ra := func() udp.UDPAddr {
		return udp.UDPAddr{IA: c05RIA, Host: &net.UDPAddr{IP: srvIP.AsSlice(), Port: 10123}}
	}
	pathOf := func(th time.Duration) int { return int((th+50*time.Second)/(100*time.Second)) - 1 }
	usage := map[int]int{}
	usageRounds := 0
	nScen := r.Pick(60, 2500)
	for sc := 0; sc < nScen; sc++ {
		id := fmt.Sprintf("m%d", sc)
		if r.Only() != "" && r.Only() != id {
			continue
		}
		nC := 1 + rng.IntN(9)
		interleavedCfg := rng.IntN(2) == 0
		// every fifth scenario: the only path offered is one without interface metadata, as the path to a
		// server in the local AS is (its fingerprint is the empty string); the client stays on it
		intraAS := sc%5 == 4
		if intraAS {
			nC, interleavedCfg = 1+rng.IntN(2), true
		}
		clients := make([]*client.SCIONClient, nC)
		spies := make([]*spyFilter, nC)
		for i := range clients {
			spies[i] = &spyFilter{}
			clients[i] = &client.SCIONClient{Log: log, DSCP: uint8(i + 1), InterleavedMode: interleavedCfg, Filter: spies[i]}
		}
		// every third scenario: servers that answer interleaved requests in basic mode, so that clients
		// configured for interleaved mode never get into it
		nw.mu.Lock()
		nw.basic = sc%3 == 2 && !intraAS
		basicOnly := nw.basic
		nw.mu.Unlock()
		prevPath := map[int]int{} // dscp -> path of the previous round, if that round ended in interleaved mode
		nRounds := 1 + rng.IntN(4)
		if basicOnly {
			nRounds = 3 + rng.IntN(3)
		}
		for round := 0; round < nRounds; round++ {
			var offered []int
			sw := rng.IntN(6)
			if basicOnly && round > 0 {
				sw = 2 + rng.IntN(4) // mostly large offers, so that the path of the previous round is usually offered again
			}
			switch sw {
			case 0: // none
			case 1:
				offered = rng.Perm(nPaths)[:1+rng.IntN(2)]
			default:
				offered = rng.Perm(nPaths)[:rng.IntN(nPaths+1)]
			}
			if round > 0 && rng.IntN(3) == 0 { // withdraw some of the previously used paths
				var keep []int
				for _, p := range offered {
					used := false
					for _, pp := range prevPath {
						used = used || pp == p
					}
					if !used || rng.IntN(2) == 0 {
						keep = append(keep, p)
					}
				}
				offered = keep
			}
			if intraAS {
				offered = []int{0}
			}
			ps := make([]snet.Path, len(offered))
			for i, p := range offered {
				ps[i] = nw.paths[p]
				if intraAS {
					bare := nw.paths[p].(snetpath.Path)
					bare.Meta = snet.PathMetadata{}
					ps[i] = bare
				}
			}
			nw.mu.Lock()
			nw.obs = nil
			nw.bad = map[int]bool{}
			if rng.IntN(3) == 0 { // some servers answer with a response the client must reject
				for _, p := range offered {
					if rng.IntN(3) == 0 {
						nw.bad[p] = true
					}
				}
			}
			nw.bad1, nw.nreq = map[int]bool{}, map[[2]int]int{}
			if len(nw.bad) == 0 && rng.IntN(4) == 0 { // a first attempt that fails at once, a second one that succeeds
				for _, p := range offered {
					if rng.IntN(2) == 0 {
						nw.bad1[p] = true
					}
				}
			}
			badNow := map[int]bool{}
			for p := range nw.bad {
				badNow[p] = true
			}
			for p := range nw.bad1 {
				if !interleavedCfg { // a client with a single attempt per round has nothing after the failed one
					badNow[p] = true
				}
			}
			badFirst := len(nw.bad1) > 0
			nw.mu.Unlock()
			resetsBefore := make([]int, nC)
			for i, s := range spies {
				resetsBefore[i] = s.resets
			}
			wasInter := map[int]bool{}
			for i, c := range clients {
				wasInter[i+1] = c.InInterleavedMode()
			}
			ctx, cancel := context.WithTimeout(context.Background(), 2*time.Second)
			var off time.Duration
			var err error
			pnc := c02Recover(func() { _, off, err = client.MeasureClockOffsetSCION(ctx, log, clients, la(), ra(), ps) })
			cancel()
			scionQuiesce()
			r.Eval(1)
			nw.mu.Lock()
			obs := append([]c15Obs{}, nw.obs...)
			nw.mu.Unlock()
			w := map[string]any{"clients": nC, "interleaved_mode_configured": interleavedCfg, "round": round, "offered_paths": offered,
				"requests_seen(dscp,path,interleaved)": fmt.Sprint(obs), "offset": off.String(), "error": fmt.Sprint(err), "previously_interleaved_on": fmt.Sprint(prevPath)}
			if pnc != nil {
				w["panic"] = fmt.Sprint(pnc)
				r.Violation("MeasureClockOffsetSCION|panic|round", id, w)
				break
			}
			// relation client -> path for this round
			c2p := map[int]map[int]bool{}
			p2c := map[int]map[int]bool{}
			firstReq := map[int]c15Obs{}
			for _, o := range obs {
				if c2p[o.dscp] == nil {
					c2p[o.dscp] = map[int]bool{}
					firstReq[o.dscp] = o
				}
				if p2c[o.path] == nil {
					p2c[o.path] = map[int]bool{}
				}
				c2p[o.dscp][o.path] = true
				p2c[o.path][o.dscp] = true
			}
			bad := false
			for d, pp := range c2p {
				if len(pp) > 1 {
					r.Violation("MeasureClockOffsetSCION|wrong-value:one client probed over more than one path in a round", id, w)
					bad = true
				}
				for p := range pp {
					if !slices.Contains(offered, p) {
						r.Violation("MeasureClockOffsetSCION|wrong-value:client probed over a path that was not offered", id, w)
						bad = true
					}
				}
				_ = d
			}
			for _, cc := range p2c {
				if len(cc) > 1 {
					r.Violation("MeasureClockOffsetSCION|wrong-value:two clients probed over the same path in one round", id, w)
					bad = true
				}
			}
			if len(c2p) > min(nC, len(offered)) {
				r.Violation("MeasureClockOffsetSCION|wrong-value:more participants than clients or paths", id, w)
				bad = true
			}
			if len(offered) == 0 {
				if err == nil {
					r.Violation("MeasureClockOffsetSCION|wrong-value:no error although no path was offered", id, w)
				} else {
					r.Class("round:no-path-error")
				}
			} else if err != nil {
				anyGood := false
				for _, pp := range c2p {
					for p := range pp {
						anyGood = anyGood || !badNow[p]
					}
				}
				if anyGood {
					r.Violation("MeasureClockOffsetSCION|wrong-value:error although a participating client got a usable response", id, w)
					bad = true
				} else {
					r.Class("round:every-participant-failed->error")
				}
			}
			w["paths_with_unusable_responses"] = fmt.Sprint(badNow)
			// sticky interleaved paths
			for d, pp := range prevPath {
				if !wasInter[d] {
					continue
				}
				if slices.Contains(offered, pp) {
					if !c2p[d][pp] {
						r.Violation("MeasureClockOffsetSCION|wrong-value:client in interleaved mode did not keep its still-offered path", id, w)
						bad = true
					} else if !firstReq[d].interleaved {
						r.Violation("MeasureClockOffsetSCION|wrong-value:client kept its path but did not send an interleaved request", id, w)
						bad = true
					} else {
						r.Class("round:interleaved-client-kept-its-path")
						if intraAS {
							r.Class("round:interleaved-client-kept-its-path (path without metadata, empty fingerprint)")
						}
					}
				} else {
					if spies[d-1].resets == resetsBefore[d-1] {
						r.Violation("MeasureClockOffsetSCION|wrong-value:filter not reset when the interleaved path was withdrawn", id, w)
						bad = true
					}
					if o, ok := firstReq[d]; ok && o.interleaved {
						r.Violation("MeasureClockOffsetSCION|wrong-value:interleaved request over a new path after the previous path was withdrawn", id, w)
						bad = true
					} else {
						r.Class("round:withdrawn-path->reset-and-basic-request")
					}
				}
			}
			// every client that does not keep a path is reset together with its filter at the start of the round
			for i := range clients {
				d := i + 1
				pp, had := prevPath[d]
				if had && wasInter[d] && slices.Contains(offered, pp) {
					continue
				}
				if spies[i].resets == resetsBefore[i] {
					w["client_dscp"] = d
					r.Violation("MeasureClockOffsetSCION|wrong-value:client that is not in interleaved mode (or whose path was withdrawn) was not reset together with its filter", id, w)
					bad = true
					break
				}
				if interleavedCfg && basicOnly && round > 0 {
					r.Class("round:client configured for interleaved mode but answered in basic mode is reset")
				}
			}
			// result = fault-tolerant midpoint over one value per participant
			if err == nil && len(c2p) > 0 && !bad {
				var th []int64
				for _, pp := range c2p {
					for p := range pp {
						if !badNow[p] { // a client whose measurement failed contributes no value
							th = append(th, int64(nw.theta[p]))
						}
					}
				}
				if len(th) < len(c2p) {
					r.Class("round:some-participants-failed")
				}
				if badFirst && interleavedCfg {
					r.Class("round:first attempt of some clients failed at once, a later one succeeded")
				}
				if len(th) == 0 {
					r.Violation("MeasureClockOffsetSCION|wrong-value:success although every participating client's measurement failed", id, w)
					break
				}
				lo, hi := ftmBounds(th)
				mid := lo + (hi-lo)/2 // the statement names the fault-tolerant midpoint itself
				if int64(off) < mid-int64(50*time.Millisecond) || int64(off) > mid+int64(50*time.Millisecond) {
					w["participant_offsets"] = th
					r.Violation("MeasureClockOffsetSCION|wrong-value:result is not the fault-tolerant midpoint of one value per participating client", id, w)
				} else {
					r.Class(fmt.Sprintf("round:ftm-over-%s-participants", bucket(int64(len(th)))))
				}
				if len(c2p) == min(nC, len(offered)) {
					r.Class("round:all-possible-participants")
				} else {
					r.Violation("MeasureClockOffsetSCION|wrong-value:fewer participants than min(clients, paths) although every server answers", id, w)
				}
			}
			// bookkeeping for the next round
			prevPath = map[int]int{}
			for i, c := range clients {
				if c.InInterleavedMode() {
					for p := range c2p[i+1] {
						prevPath[i+1] = p
					}
				}
			}
			if !interleavedCfg && round == 0 && len(offered) >= 2 && len(offered) < nPaths && nC == 1 {
				for p := range c2p[1] {
					usage[slices.Index(offered, p)*100/len(offered)/34]++ // tercile of the offer list the chosen path came from
				}
				usageRounds++
			}
			_ = pathOf
			r.Distinct(fmt.Sprint(nC, interleavedCfg, round, len(offered), len(c2p), len(prevPath)))
			if sc < 2 {
				r.Sample(w)
			}
			if bad {
				break
			}
		}
	}
	r.Set("single_client_choice_by_tercile_of_offer_list", fmt.Sprint(usage))
	if r.Only() == "" || strings.HasPrefix(r.Only(), "svc") {
		c15Service(r, nw, srvIP, cliIP)
	}
	r.CollectRaces(false, "")
}

func init() {
	// the rounds run the real clients (goroutines of their own) under the race detector in a child
	// process; the sampling part is pure computation and runs in the plain parent (the 2^32-word
	// enumeration would take ten times as long under -race)
	Legs["C15rounds"] = func(args []string) {
		r := ev.NewLeg("C15")
		c15Rounds(r)
		r.FinishLeg()
	}
	register("C15", "exploration", func(r *ev.Run) {
		if r.Only() == "" || r.Only()[0] != 'm' {
			c15Sample(r)
		}
		var env []string
		if r.Only() != "" {
			env = append(env, "VERIF_ONLY="+r.Only())
		}
		r.CrashViolation(r.RunLeg("race", "C15rounds", 60*time.Minute, env), "MeasureClockOffsetSCION rounds")
		r.Assume("uniformity: chi-square at p ~ 1e-9 over the chosen subsets with a uniform (seeded) word source, deterministic per seed; the full 2^32-word enumeration (thorough) only for n = 3")
		r.Assume("paths are hand-built (no control plane); each path's next hop is its own scripted server; clients are told apart by DSCP; data race reports are recorded as observations (the property does not claim race freedom)")
		if r.Only() == "" || r.Only() == "main:c15wiring" {
			runMainLeg(r, "c15wiring")
			runMainLeg(r, "c15service", "VERIF_MAINLEG_IPS="+blockIP(r, 15, 31).String()+","+blockIP(r, 15, 32).String(), fmt.Sprintf("VERIF_MAINLEG_ROUNDS=%d", r.Pick(14, 120)))
		}
		r.Finish("part 1: crypto.Sample for k,n in 0..13 (and n up to 299) with crypto/rand.Reader replaced by a scripted word source (uniform, and small words that rejection sampling must retry): return value, range and injectivity of the pick(dst,src) assignment; "+
			"RandIntn at the rejection threshold 2^32 mod n for 13 values of n; chi-square uniformity of the chosen k-subsets for 9 (k,n) pairs. part 2: rounds of the real MeasureClockOffsetSCION with 1..9 clients, interleaved mode on/off, 0..12 offered paths "+
			"(withdrawals of previously used paths), every path served by its own scripted server reporting a distinct clock offset: per round the client->path relation observed on the wire must be injective, within the offer, of size min(clients, paths); "+
			"clients in interleaved mode keep a still-offered path and send an interleaved request, otherwise are reset (spy filter) and send a basic one; the result lies in the FTM bounds of the participants' offsets; zero paths give an error. "+
			"distinct_nontrivial = distinct (clients, mode, round, offered, participants, sticky) tuples", 8)
	})
}

var _ = io.EOF
var _ = rand.Int

// c15Service: the rounds as the time service runs them — the offer of every round comes from the
// project's Pather, which a (scripted) SCION daemon feeds, and one Pather serves all rounds.
// The destination ISD-AS is listed once or twice (the service lists it once per reference clock
// or peer configured in that AS).
func c15Service(r *ev.Run, nw *c15Net, srvIP, cliIP netip.Addr) {
	log := slog.New(slog.DiscardHandler)
	rng := r.Rng("c15/service")
	for sc := 0; sc < r.Pick(6, 120); sc++ {
		id := fmt.Sprintf("svc%d", sc)
		if r.Only() != "" && r.Only() != id {
			continue
		}
		d, err := peer.NewFakeDaemon(netip.AddrPortFrom(blockIP(r, 15, 3), 0).String(), []byte("c15"), time.Hour)
		if err != nil {
			r.Inconclusive("fake daemon: " + err.Error())
			return
		}
		d.LocalIA = uint64(c05LIA)
		nP := 2 + rng.IntN(5)
		var dps []*sdpb.Path
		for p := 0; p < nP; p++ {
			dp := peer.SCIONPath(rng, 2, 1+rng.IntN(3))
			dp.PathMeta.CurrINF, dp.PathMeta.CurrHF = 0, 0
			raw := make([]byte, dp.Len())
			if err := dp.SerializeTo(raw); err != nil {
				continue
			}
			dps = append(dps, peer.DaemonPath(raw, nw.srvs[p].Addr.String(), uint64(c05LIA), uint64(c05RIA), p))
		}
		d.SetPaths(uint64(c05RIA), dps)
		listed := 1 + sc%2
		dstIAs := []addr.IA{c05RIA}
		if listed == 2 {
			dstIAs = append(dstIAs, c05RIA)
		}
		pather := scion.StartPather(context.Background(), log, d.Addr(), dstIAs)
		nC := 1 + rng.IntN(7)
		clients := make([]*client.SCIONClient, nC)
		for i := range clients {
			clients[i] = &client.SCIONClient{Log: log, DSCP: uint8(i + 1), InterleavedMode: sc%3 != 0, Filter: &spyFilter{}}
		}
		la := udp.UDPAddr{IA: c05LIA, Host: &net.UDPAddr{IP: cliIP.AsSlice()}}
		ra := udp.UDPAddr{IA: c05RIA, Host: &net.UDPAddr{IP: srvIP.AsSlice(), Port: 10123}}
		prev := map[int]int{}
		for round := 0; round < 5; round++ {
			ps := pather.Paths(c05RIA)
			fps := map[string]bool{}
			for _, p := range ps {
				fps[snet.Fingerprint(p).String()] = true
			}
			nw.mu.Lock()
			nw.obs, nw.bad, nw.basic = nil, map[int]bool{}, false
			nw.mu.Unlock()
			ctx, cancel := context.WithTimeout(context.Background(), 2*time.Second)
			var merr error
			pnc := c02Recover(func() { _, _, merr = client.MeasureClockOffsetSCION(ctx, log, clients, la, ra, ps) })
			cancel()
			r.Eval(1)
			nw.mu.Lock()
			obs := append([]c15Obs{}, nw.obs...)
			nw.mu.Unlock()
			w := map[string]any{"clients": nC, "paths_of_the_daemon": nP, "destination_listed_times": listed, "paths_offered_by_the_pather": len(ps), "distinct_paths_offered": len(fps),
				"round": round, "requests_seen(dscp,path,interleaved)": fmt.Sprint(obs), "error": fmt.Sprint(merr)}
			if pnc != nil {
				w["panic"] = fmt.Sprint(pnc)
				r.Violation("MeasureClockOffsetSCION|panic|rounds fed by the Pather", id, w)
				break
			}
			c2p, p2c := map[int]map[int]bool{}, map[int]map[int]bool{}
			first := map[int]c15Obs{}
			for _, o := range obs {
				if c2p[o.dscp] == nil {
					c2p[o.dscp] = map[int]bool{}
					first[o.dscp] = o
				}
				if p2c[o.path] == nil {
					p2c[o.path] = map[int]bool{}
				}
				c2p[o.dscp][o.path], p2c[o.path][o.dscp] = true, true
			}
			bad := false
			for _, cc := range p2c {
				if len(cc) > 1 {
					r.Violation("MeasureClockOffsetSCION|wrong-value:two clients probed over the same path in one round|paths from the Pather", id, w)
					bad = true
					break
				}
			}
			if !bad && len(c2p) != min(nC, nP) {
				r.Violation("MeasureClockOffsetSCION|wrong-value:participants differ from min(clients, paths)|paths from the Pather", id, w)
				bad = true
			}
			if !bad && len(fps) != nP {
				r.Violation("Pather|wrong-value:offer does not consist of the daemon's paths|paths from the Pather", id, w)
				bad = true
			}
			for dscp, pp := range prev {
				if bad {
					break
				}
				if !c2p[dscp][pp] || !first[dscp].interleaved {
					r.Violation("MeasureClockOffsetSCION|wrong-value:client in interleaved mode did not keep its still-offered path|paths from the Pather", id, w)
					bad = true
				}
			}
			if bad {
				break
			}
			prev = map[int]int{}
			for i, c := range clients {
				if c.InInterleavedMode() {
					for p := range c2p[i+1] {
						prev[i+1] = p
					}
				}
			}
			r.Class(fmt.Sprintf("service-flow:round over the Pather's offer (destination listed %d x)", listed))
		}
		d.Close()
		r.Distinct(fmt.Sprint("svc", nC, nP, listed))
	}
}
