package monitors

import (
	"bytes"
	"context"
	"encoding/binary"
	"fmt"
	"github.com/scionproto/scion/pkg/slayers/path/empty"
	"github.com/scionproto/scion/pkg/slayers/path/epic"
	"log/slog"
	"math/rand/v2"
	"net"
	"net/netip"
	"strings"
	"sync"
	"time"

	"github.com/scionproto/scion/pkg/slayers"
	"github.com/scionproto/scion/pkg/slayers/path"
	"github.com/scionproto/scion/pkg/snet"

	"example.com/scion-time/core/client"
	"example.com/scion-time/net/scion"
	"example.com/scion-time/net/udp"

	"verif/harness/internal/ev"
	"verif/harness/internal/peer"
)

// C13 — SCION packet authentication and reply addressing are sound end to end.
// DRKey is replaced by the project's mock keys (USE_MOCK_KEYS=true): the host-to-host key is
// the all-zero key on both sides, which the monitor uses to compute MACs independently
// with the scion library's spao package.

const (
	c13SPIClient = uint32(1)<<17 | uint32(1)<<16 | 123
	c13SPIServer = uint32(1)<<17 | uint32(0)<<16 | 123
)

var c13Key = make([]byte, 16)

type c13Pkt struct {
	p    *peer.SCIONPkt
	mk   func() path.Path // rebuilds the path as sent (Reverse mutates)
	data []byte
}

func c13Build(rng *rand.Rand, src, dst netip.Addr, sport, dport uint16, payload []byte, auth bool) (*c13Pkt, error) {
	seed := rng.Uint64()
	mk := func() path.Path {
		lr := rand.New(rand.NewPCG(seed, 3))
		switch lr.IntN(6) {
		case 5:
			if ep, err := peer.EPICPath(lr, 1+lr.IntN(4), 1+lr.IntN(4)); err == nil {
				return ep
			}
			return nil
		case 0:
			return nil
		case 1:
			return peer.SCIONPath(lr, 1+lr.IntN(6))
		case 2:
			return peer.SCIONPath(lr, 1+lr.IntN(4), 1+lr.IntN(4))
		case 3:
			return peer.SCIONPath(lr, 1+lr.IntN(3), 1+lr.IntN(3), 1+lr.IntN(3))
		default:
			return peer.OneHopPath(lr, true)
		}
	}
	pth := mk()
	srcIA := c05RIA
	if pth == nil {
		srcIA = c05LIA
	}
	p := &peer.SCIONPkt{SrcIA: srcIA, DstIA: c05LIA, SrcHost: src, DstHost: dst, SrcPort: sport, DstPort: dport, Path: pth, Payload: payload,
		FlowID: uint32(seed>>8) & 0xfffff, TrafficClass: uint8(seed>>40) & 0xfc}
	if seed>>50&3 == 0 { // a hop-by-hop extension header in front of the end-to-end one
		p.HBH = []*slayers.HopByHopOption{{OptType: slayers.OptionType(30 + seed>>52&7), OptData: randBytes(rand.New(rand.NewPCG(seed, 5)), int(seed>>56&7))}}
	}
	out := &c13Pkt{p: p, mk: mk}
	var err error
	if auth {
		p.E2E = []*slayers.EndToEndOption{peer.NewAuthOption(c13SPIClient, 0)}
		for i := 5; i < 12; i++ { // timestamp / sequence number bytes: covered by the MAC
			p.E2E[0].OptData[i] = byte(seed >> uint(i))
		}
		out.data, err = peer.SignPkt(p, c13Key)
	} else {
		out.data, err = p.Serialize()
	}
	return out, err
}

// c13CheckReply verifies addressing, path reversal and (if present) the authenticator of a reply.
func c13CheckReply(rq *c13Pkt, reply []byte, wantAuth bool) (ntp []byte, problems []string) {
	ps, err := peer.ParseSCION(reply)
	if err != nil {
		return nil, []string{"reply is not a SCION packet"}
	}
	srcH, _ := ps.SCION.SrcAddr()
	dstH, _ := ps.SCION.DstAddr()
	if ps.SCION.SrcIA != rq.p.DstIA || ps.SCION.DstIA != rq.p.SrcIA || srcH.IP() != rq.p.DstHost || dstH.IP() != rq.p.SrcHost {
		problems = append(problems, "ISD-AS or host addresses not exchanged")
	}
	if ps.HasUDP && (ps.UDP.SrcPort != rq.p.DstPort || ps.UDP.DstPort != rq.p.SrcPort) {
		problems = append(problems, "ports not exchanged")
	}
	var want []byte
	wantType := empty.PathType
	if exp := rq.mk(); exp != nil {
		// the reply to a request over an EPIC-HP path travels over the reversed standard path inside it: the
		// packet identifier and hop validation fields of the request are not valid for another packet
		// (as snet.DefaultReplyPather does it)
		if ep, ok := exp.(*epic.Path); ok {
			exp = ep.ScionPath
		}
		if rev, err := exp.Reverse(); err == nil {
			want = make([]byte, rev.Len())
			_ = rev.SerializeTo(want)
			wantType = rev.Type()
		}
	}
	if ps.SCION.PathType != wantType {
		problems = append(problems, "path type is not that of the reversed path")
	}
	if !bytes.Equal(want, ps.RawPath) {
		problems = append(problems, "path is not the reversal of the request's path")
	}
	hasAuth := false
	if ps.HasE2E {
		if opt, err := ps.E2E.FindOption(slayers.OptTypeAuthenticator); err == nil {
			hasAuth = true
			if len(opt.OptData) != peer.AuthOptDataLen {
				problems = append(problems, "authenticator option of unexpected size")
			} else {
				spi := uint32(opt.OptData[0])<<24 | uint32(opt.OptData[1])<<16 | uint32(opt.OptData[2])<<8 | uint32(opt.OptData[3])
				if spi != c13SPIServer || opt.OptData[4] != 0 {
					problems = append(problems, "reply authenticator does not carry the server-side SPI and CMAC algorithm")
				}
				mac, err := peer.ComputeMAC(c13Key, opt, &ps.SCION, slayers.L4UDP, ps.L4Bytes)
				if err != nil || !bytes.Equal(mac, opt.OptData[12:]) {
					problems = append(problems, "reply authenticator does not verify over the reply as received")
				}
			}
		}
	}
	if wantAuth && !hasAuth {
		problems = append(problems, "reply to an authenticated request carries no authenticator")
	}
	if ps.HasUDP {
		ntp = ps.UDP.Payload
	}
	return ntp, problems
}

// c13ForeignOptions describes what a forwarded packet's end-to-end header holds beyond the options
// it was sent with and at most one receive-timestamp option (type 253) of the forwarder; "" if nothing.
func c13ForeignOptions(ps *peer.ParsedSCION, sent []*slayers.EndToEndOption) string {
	if !ps.HasE2E {
		return ""
	}
	ts, k := 0, 0
	for _, o := range ps.E2E.Options {
		switch {
		case k < len(sent) && o.OptType == sent[k].OptType && bytes.Equal(o.OptData, sent[k].OptData):
			k++
		case o.OptType == 253:
			ts++
		case o.OptType == slayers.OptTypePad1 || o.OptType == slayers.OptTypePadN:
		default:
			return fmt.Sprintf("unexpected option of type %d (%d bytes)", o.OptType, len(o.OptData))
		}
	}
	if ts > 1 {
		return fmt.Sprintf("%d receive-timestamp options", ts)
	}
	return ""
}

func c13Server(r *ev.Run) {
	srv, srv2, cli, app := blockIP(r, 13, 1), blockIP(r, 13, 4), blockIP(r, 13, 2), blockIP(r, 13, 5)
	tgt, err := StartTarget("plain", "-ip", srv.String(), "-kinds", "scion")
	if err != nil {
		r.Inconclusive("target: " + err.Error())
		return
	}
	defer tgt.Kill()
	// the dispatcher-only end host is a process of its own (it shares metric names with the server)
	tgt2, err := StartTarget("plain", "-ip", srv.String(), "-ip2", srv2.String(), "-kinds", "disp")
	if err != nil {
		r.Inconclusive("target: " + err.Error())
		return
	}
	defer tgt2.Kill()
	uc, err := peer.NewUDPClient(cli)
	if err != nil {
		r.Inconclusive(err.Error())
		return
	}
	rng := r.Rng("c13")
	hosts := []netip.Addr{cli, netip.MustParseAddr("fd00:1:2:3::7")}
	dsts := []netip.Addr{srv, netip.MustParseAddr("fd00::99")}
	sentinel := func(dst netip.AddrPort) bool {
		tx := peer.UniqueTime64()
		b, _ := (&peer.SCIONPkt{SrcIA: c05LIA, DstIA: c05LIA, SrcHost: cli, DstHost: srv, SrcPort: uc.Local().Port(), DstPort: 10123, Payload: peer.NTPRequest(tx)}).Serialize()
		for a := 0; a < 3; a++ {
			_ = uc.Send(dst, b)
			if _, hit := uc.ReadUntil(3*time.Second, func(d peer.Datagram) bool { return peer.NTPOrigin(scionUnwrap(d.Data)) == tx }); hit != nil {
				return true
			}
		}
		return false
	}
	// one request followed by a sentinel: returns the replies to the request
	exchange := func(dst netip.AddrPort, rq *c13Pkt, tx uint64) ([]peer.Datagram, bool) {
		_ = uc.Send(dst, rq.data)
		stx := peer.UniqueTime64()
		sb, _ := (&peer.SCIONPkt{SrcIA: c05LIA, DstIA: c05LIA, SrcHost: cli, DstHost: srv, SrcPort: uc.Local().Port(), DstPort: 10123, Payload: peer.NTPRequest(stx)}).Serialize()
		var got []peer.Datagram
		for a := 0; a < 3; a++ {
			_ = uc.Send(dst, sb)
			before, hit := uc.ReadUntil(3*time.Second, func(d peer.Datagram) bool { return peer.NTPOrigin(scionUnwrap(d.Data)) == stx })
			got = append(got, before...)
			if hit != nil {
				return got, true
			}
		}
		return got, false
	}
	n := r.Pick(400, 20000)
	for i := 0; i < n; i++ {
		id := fmt.Sprintf("a%d", i)
		if r.Only() != "" && r.Only() != id {
			continue
		}
		underlay := netip.AddrPortFrom(srv, []uint16{10123, 30041}[i%2])
		tx := peer.UniqueTime64()
		payload := peer.NTPRequest(tx)
		if rng.IntN(3) == 0 {
			payload = append(payload, randBytes(rng, 0)...)
		}
		auth := i%4 != 3
		rq, err := c13Build(rng, hosts[rng.IntN(2)], dsts[rng.IntN(2)], uc.Local().Port(), 10123, payload, auth)
		if err != nil {
			continue
		}
		mutation := "none"
		if auth {
			switch i % 9 {
			case 1: // NTP payload byte without semantic check (poll)
				rq.data[len(rq.data)-48+2] ^= 1 << uint(rng.IntN(8))
				mutation = "payload byte changed"
			case 2: // MAC
				off := bytes.Index(rq.data, rq.p.E2E[0].OptData[12:])
				rq.data[off+rng.IntN(16)] ^= 1 << uint(rng.IntN(8))
				mutation = "MAC bit flipped"
			case 3: // header and authenticator of the genuine request kept, the UDP datagram replaced in place by another one
				// (same length) and the genuine datagram appended behind the SCION payload
				l4 := 8 + len(payload)
				off := len(rq.data) - l4
				tx2 := peer.UniqueTime64()
				other := append([]byte{}, rq.data[off:]...)
				binary.BigEndian.PutUint64(other[8+40:], tx2)
				forged := append([]byte{}, rq.data[:off]...)
				forged = append(forged, other...)
				forged = append(forged, rq.data[off:]...)
				rq.data = forged
				tx = tx2 // a reply to the substituted request would carry this origin
				mutation = "datagram substituted, genuine datagram appended"
			case 4: // option timestamp / sequence number
				off := bytes.Index(rq.data, rq.p.E2E[0].OptData[:12])
				rq.data[off+6+rng.IntN(6)] ^= 1 << uint(rng.IntN(8)) // bytes 6..11: timestamp / sequence number (byte 5 is reserved and not covered)
				mutation = "authenticator timestamp/sequence changed"
			case 6: // the time service's SPI and algorithm, but the option is cut short: it cannot verify
				nb := 5 + rng.IntN(23)
				rq.p.E2E[0].OptData = append([]byte{}, rq.p.E2E[0].OptData[:nb]...)
				if b, err := rq.p.Serialize(); err == nil {
					rq.data = b
					mutation = "authenticator option cut short (time-service SPI and algorithm kept)"
				}
			case 5: // flow id
				rq.data[3] ^= 1 << uint(rng.IntN(8))
				mutation = "flow id changed"
			case 7: // UDP source port (L4 header is covered); keep our port for the sentinel by flipping the destination port's copy in the header instead
				rq.data[len(rq.data)-56+5] ^= 0x01 // UDP length low byte: covered, and the packet still parses
				mutation = "UDP header changed"
			case 8: // a hop field MAC byte (immutable path field), only for SCION paths
				if pth := rq.mk(); pth != nil && pth.Type() == 1 {
					off := 12 + 24 + 4 // common + addresses (v4/v4) + path meta
					if rq.p.SrcHost.Is6() {
						off += 12
					}
					if rq.p.DstHost.Is6() {
						off += 12
					}
					// path meta, then one 8-byte info field per segment, then the hop fields: flags, exp, ingress, egress, mac(6)
					meta := uint32(rq.data[off-4])<<24 | uint32(rq.data[off-3])<<16 | uint32(rq.data[off-2])<<8 | uint32(rq.data[off-1])
					nInf := 0
					for _, sl := range []uint32{meta >> 12 & 0x3f, meta >> 6 & 0x3f, meta & 0x3f} {
						if sl > 0 {
							nInf++
						}
					}
					rq.data[off+8*nInf+6+rng.IntN(6)] ^= 1 << uint(rng.IntN(8))
					mutation = "hop field MAC changed"
				}
			}
		} else if i%8 == 3 { // another SPI: not the time service's authenticator
			rq2, err := c13Build(rng, rq.p.SrcHost, rq.p.DstHost, uc.Local().Port(), 10123, payload, true)
			if err == nil {
				rq2.p.E2E[0].OptData[3] = 99 // protocol number 99
				rq2.data, _ = rq2.p.Serialize()
				rq, mutation = rq2, "authenticator of another protocol (unverifiable MAC)"
			}
		}
		replies, ok := exchange(underlay, rq, tx)
		r.Eval(1)
		if !ok {
			if !tgt.Alive() {
				first, frame := tgt.ExitInfo()
				r.Violation("scion-listener|panic:"+c08Sig(frame)+"|"+mutation, id, map[string]any{"request": ev.Hex(rq.data), "panic": first})
				return
			}
			r.Inconclusive("sentinel unanswered in C13 server leg")
			return
		}
		var mine []peer.Datagram
		for _, d := range replies {
			if peer.NTPOrigin(scionUnwrap(d.Data)) == tx {
				mine = append(mine, d)
			}
		}
		w := map[string]any{"request": ev.Hex(rq.data), "authenticated": auth, "mutation": mutation, "underlay_port": underlay.Port(), "replies": len(mine)}
		r.Distinct(fmt.Sprint(auth, mutation, underlay.Port(), rq.p.SrcHost.Is6(), rq.p.DstHost.Is6(), rq.mk() == nil, len(rq.p.HBH)))
		if len(rq.p.HBH) > 0 {
			r.Class("request-with-hop-by-hop-header")
		}
		switch {
		case auth && mutation != "none":
			if len(mine) != 0 {
				r.Violation("scion-listener|wrong-reply:request with a time-service authenticator whose MAC does not verify was served|"+mutation, id, w)
			} else {
				r.Class("auth:bad-mac-not-served:" + mutation)
			}
		case len(mine) != 1:
			r.Violation("scion-listener|missing-reply:valid request not answered exactly once|"+mutation, id, w)
		default:
			_, problems := c13CheckReply(rq, mine[0].Data, auth && mutation == "none")
			if mine[0].From != underlay {
				problems = append(problems, "reply not sent from the socket's address to the previous hop")
			}
			for _, p := range problems {
				w["reply"] = ev.Hex(mine[0].Data)
				r.Violation("scion-listener|wrong-reply:"+p+"|"+map[bool]string{true: "authenticated request", false: "plain request"}[auth], id, w)
			}
			if len(problems) == 0 {
				if auth {
					r.Class("auth:valid-request-served-with-verifying-authenticator")
				} else {
					r.Class("plain-request-served:" + mutation)
				}
			}
		}
		if i < 2 {
			r.Sample(w)
		}
	}
	// ---- SCMP echo / traceroute on server and dispatcher
	for i := 0; i < r.Pick(120, 4000); i++ {
		id := fmt.Sprintf("s%d", i)
		if r.Only() != "" && r.Only() != id {
			continue
		}
		targets := []netip.AddrPort{netip.AddrPortFrom(srv, 10123), netip.AddrPortFrom(srv, 30041), netip.AddrPortFrom(srv2, 30041)}
		dst := targets[i%3]
		body := randBytes(rng, rng.IntN(64))
		rq, err := c13Build(rng, hosts[rng.IntN(2)], dsts[rng.IntN(2)], 0, 0, body, false)
		if err != nil {
			continue
		}
		echo := i%2 == 0
		ident, seq := uint16(rng.IntN(65536)), uint16(i)
		if echo {
			rq.p.SCMP = &slayers.SCMP{TypeCode: slayers.CreateSCMPTypeCode(slayers.SCMPTypeEchoRequest, 0)}
			rq.p.SCMPEcho = &slayers.SCMPEcho{Identifier: ident, SeqNumber: seq}
		} else {
			rq.p.SCMP = &slayers.SCMP{TypeCode: slayers.CreateSCMPTypeCode(slayers.SCMPTypeTracerouteRequest, 0)}
			rq.p.SCMPTrace = &slayers.SCMPTraceroute{Identifier: ident, Sequence: seq}
		}
		rq.data, err = rq.p.Serialize()
		if err != nil {
			continue
		}
		// the SCMP message body as sent (everything after the 4-byte SCMP header)
		sent, _ := peer.ParseSCION(rq.data)
		_ = uc.Send(dst, rq.data)
		wantType := slayers.SCMPTypeEchoReply
		if !echo {
			wantType = slayers.SCMPTypeTracerouteReply
		}
		_, hit := uc.ReadUntil(3*time.Second, func(d peer.Datagram) bool {
			ps, err := peer.ParseSCION(d.Data)
			return err == nil && ps.HasSCMP && ps.SCMP.TypeCode.Type() == wantType && bytes.Equal(ps.SCMP.Payload, sent.SCMP.Payload)
		})
		r.Eval(1)
		w := map[string]any{"request": ev.Hex(rq.data), "to": dst.String(), "kind": map[bool]string{true: "echo", false: "traceroute"}[echo]}
		if hit == nil {
			if !tgt.Alive() {
				first, frame := tgt.ExitInfo()
				r.Violation("scion-listener|panic:"+c08Sig(frame)+"|SCMP request", id, map[string]any{"request": ev.Hex(rq.data), "panic": first})
				return
			}
			r.Violation("scion-listener|missing-reply:SCMP request not answered with the echoed payload intact|"+w["kind"].(string), id, w)
			continue
		}
		_, problems := c13CheckReply(rq, hit.Data, false)
		if hit.From != dst {
			problems = append(problems, "reply not sent from the socket's address to the previous hop")
		}
		for _, p := range problems {
			w["reply"] = ev.Hex(hit.Data)
			r.Violation("scion-listener|wrong-reply:"+p+"|SCMP "+w["kind"].(string), id, w)
		}
		if len(problems) == 0 {
			r.Class("scmp-reply-correct:" + w["kind"].(string) + fmt.Sprintf(":%d", dst.Port()))
		}
	}
	// ---- forwarding of packets addressed to another end-host port
	appSock, err1 := net.ListenUDP("udp", net.UDPAddrFromAddrPort(netip.AddrPortFrom(app, 40000)))
	app30041, err2 := net.ListenUDP("udp", net.UDPAddrFromAddrPort(netip.AddrPortFrom(app, 30041)))
	if err1 != nil || err2 != nil {
		r.Inconclusive("bind application sockets")
		return
	}
	defer appSock.Close()
	defer app30041.Close()
	recv := func(c *net.UDPConn, d time.Duration) [][]byte {
		var out [][]byte
		_ = c.SetReadDeadline(time.Now().Add(d))
		buf := make([]byte, 65536)
		for {
			n, _, err := c.ReadFromUDPAddrPort(buf)
			if err != nil {
				return out
			}
			out = append(out, append([]byte{}, buf[:n]...))
			_ = c.SetReadDeadline(time.Now().Add(20 * time.Millisecond))
		}
	}
	type fwdCase struct {
		to      netip.AddrPort
		dport   uint16
		forward bool
		name    string
	}
	fcs := []fwdCase{
		{netip.AddrPortFrom(srv, 30041), 40000, true, "server end-host port -> other port"},
		{netip.AddrPortFrom(srv2, 30041), 40000, true, "dispatcher -> other port"},
		{netip.AddrPortFrom(srv, 10123), 40000, false, "service port underlay -> other port"},
		{netip.AddrPortFrom(srv, 30041), 30041, false, "server end-host port -> end-host port"},
		{netip.AddrPortFrom(srv2, 30041), 30041, false, "dispatcher -> end-host port"},
	}
	for i := 0; i < r.Pick(100, 3000); i++ {
		fc := fcs[i%len(fcs)]
		id := fmt.Sprintf("f%d", i)
		if r.Only() != "" && r.Only() != id {
			continue
		}
		payload := randBytes(rng, 1+rng.IntN(900))
		withAuth := i%3 == 0 // an authenticated packet for the application behind the end-host port
		rq, err := c13Build(rng, cli, app, 5555, fc.dport, payload, withAuth)
		if err != nil {
			continue
		}
		if i%4 == 1 {
			// an end-to-end header that leaves little or no room for a further option (the header's length
			// field counts up to 1024 bytes): sender's options of unknown types fill it up to the target
			target := []int{512, 900, 952, 956, 960, 964, 1000, 1020, 1024}[rng.IntN(9)]
			have := 2
			for _, o := range rq.p.E2E {
				have += 2 + len(o.OptData)
			}
			for k := 0; have < target; k++ {
				l := min(target-have-2, 250)
				if l < 0 {
					break
				}
				if rest := target - have - 2 - l; rest > 0 && rest < 2 {
					l--
				}
				rq.p.E2E = append(rq.p.E2E, &slayers.EndToEndOption{OptType: slayers.OptionType(40 + k%20), OptData: randBytes(rng, l)})
				have += 2 + l
			}
			if withAuth {
				rq.data, err = peer.SignPkt(rq.p, c13Key)
			} else {
				rq.data, err = rq.p.Serialize()
			}
			if err != nil {
				continue
			}
			fc.name += fmt.Sprintf(",end-to-end header of about %d bytes", target/64*64)
		}
		_ = uc.Send(fc.to, rq.data)
		// a sentinel through the same listener orders the observation: once its reply is back, the forwarder has acted
		if !sentinel(netip.AddrPortFrom(srv, 30041)) {
			r.Inconclusive("sentinel unanswered in forwarding leg")
			return
		}
		got := recv(appSock, 150*time.Millisecond)
		got30041 := recv(app30041, 20*time.Millisecond)
		r.Eval(1)
		w := map[string]any{"case": fc.name, "packet": ev.Hex(rq.data[:min(len(rq.data), 120)]), "received_on_app_port": len(got), "received_on_port_30041": len(got30041)}
		if len(got30041) != 0 {
			r.Violation("scion-forwarder|wrong-value:packet emitted to the end-host port|"+fc.name, id, w)
		}
		switch {
		case fc.forward && len(got) != 1:
			r.Violation("scion-forwarder|wrong-value:packet for another end-host port not forwarded exactly once|"+fc.name, id, w)
		case !fc.forward && len(got) != 0:
			r.Violation("scion-forwarder|wrong-value:packet forwarded although it must not be|"+fc.name, id, w)
		case fc.forward:
			ps, err := peer.ParseSCION(got[0])
			if err != nil || !ps.HasUDP || !bytes.Equal(ps.UDP.Payload, payload) || ps.UDP.DstPort != fc.dport || ps.UDP.SrcPort != 5555 {
				w["forwarded"] = ev.Hex(got[0][:min(len(got[0]), 160)])
				r.Violation("scion-forwarder|wrong-value:forwarded packet's UDP payload or ports differ|"+fc.name, id, w)
			} else if extra := c13ForeignOptions(ps, rq.p.E2E); extra != "" {
				// the forwarder may add its receive-timestamp option; everything else in the end-to-end header is the sender's
				w["forwarded"], w["options"] = ev.Hex(got[0][:min(len(got[0]), 200)]), extra
				r.Violation("scion-forwarder|wrong-value:forwarded packet carries end-to-end options that were not in the packet received|"+fc.name, id, w)
			} else if withAuth {
				// the end-to-end header belongs to the end points: its authenticator reaches the application as sent
				kept := false
				if ps.HasE2E {
					if opt, err := ps.E2E.FindOption(slayers.OptTypeAuthenticator); err == nil && bytes.Equal(opt.OptData, rq.p.E2E[0].OptData) {
						kept = true
					}
				}
				hb := map[bool]string{true: "with a hop-by-hop header", false: "without hop-by-hop header"}[len(rq.p.HBH) > 0]
				if !kept {
					w["forwarded"] = ev.Hex(got[0][:min(len(got[0]), 200)])
					r.Violation("scion-forwarder|wrong-value:forwarded packet lost its packet authenticator option|"+hb, id, w)
				} else {
					r.Class("forwarded-intact(authenticator kept, " + hb + "):" + fc.name)
				}
			} else {
				r.Class("forwarded-intact:" + fc.name)
			}
		default:
			r.Class("not-forwarded:" + fc.name)
		}
	}
}

// ---- client side

type recHandler struct {
	mu   sync.Mutex
	recs []map[string]any
}

func (h *recHandler) Enabled(context.Context, slog.Level) bool { return true }
func (h *recHandler) WithAttrs([]slog.Attr) slog.Handler       { return h }
func (h *recHandler) WithGroup(string) slog.Handler            { return h }
func (h *recHandler) Handle(_ context.Context, rec slog.Record) error {
	if rec.Message != "received response" && rec.Message != "evaluated response" {
		return nil
	}
	m := map[string]any{"msg": rec.Message}
	rec.Attrs(func(a slog.Attr) bool {
		switch a.Value.Kind() {
		case slog.KindBool:
			m[a.Key] = a.Value.Bool()
		case slog.KindDuration:
			m[a.Key] = a.Value.Duration()
		case slog.KindString:
			m[a.Key] = a.Value.String()
		}
		return true
	})
	h.mu.Lock()
	h.recs = append(h.recs, m)
	h.mu.Unlock()
	return nil
}
func (h *recHandler) take() []map[string]any {
	h.mu.Lock()
	defer h.mu.Unlock()
	r := h.recs
	h.recs = nil
	return r
}

// c13ClientCfg: which keys the scripted peer signs with and where the client gets its own.
type c13ClientCfg struct {
	prefix     string                                           // case id prefix
	hosts      [2]int                                           // host numbers in the property's address block
	fetcher    *scion.Fetcher                                   // the client's DRKey fetcher
	key        func(last *peer.ParsedSCION, mode string) []byte // key for a reply to the request `last`; modes "key:..." name other identities' keys
	extraModes []string
}

func c13Client(r *ev.Run) {
	c13ClientWith(r, c13ClientCfg{prefix: "c", hosts: [2]int{21, 22}, fetcher: scion.NewFetcher(nil),
		key: func(*peer.ParsedSCION, string) []byte { return c13Key }})
}

func c13ClientWith(r *ev.Run, cfg c13ClientCfg) {
	registerScriptedRealClock()
	rng := r.Rng("c13c" + cfg.prefix)
	srvIP, cliIP := blockIP(r, 13, cfg.hosts[0]), blockIP(r, 13, cfg.hosts[1])
	h := &recHandler{}
	log := slog.New(h)
	// scripted SCION peer whose replies carry an authenticator chosen by the current mode
	var mode string
	var last *peer.ParsedSCION
	p := &c05Peer{rng: rng, issued: map[int]int{}, lastTx: map[netip.Addr]uint64{}, lastRx: map[netip.Addr]uint64{}}
	p.unwrap = func(b []byte) ([]byte, bool) {
		ps, err := peer.ParseSCION(b)
		if err != nil || !ps.HasUDP {
			return nil, false
		}
		last = ps
		return ps.UDP.Payload, true
	}
	reqHadAuth := false
	p.wrap = func(payload []byte, rq *c05Req, m *c05Mut) []byte {
		reqHadAuth = false
		if last.HasE2E {
			if _, err := last.E2E.FindOption(slayers.OptTypeAuthenticator); err == nil {
				reqHadAuth = true
			}
		}
		pkt := &peer.SCIONPkt{SrcIA: last.SCION.DstIA, DstIA: last.SCION.SrcIA, SrcHost: srvIP, DstHost: cliIP,
			SrcPort: last.UDP.DstPort, DstPort: last.UDP.SrcPort, Payload: payload, FlowID: 9}
		if rev, err := last.SCION.Path.Reverse(); err == nil {
			pkt.Path = rev
		}
		name := mode
		if m == nil {
			name = "good" // the terminator is always a correctly authenticated reply
		}
		switch name {
		case "none":
			b, _ := pkt.Serialize()
			return b
		case "other-spi":
			pkt.E2E = []*slayers.EndToEndOption{peer.NewAuthOption(c13SPIServer+7, 0)}
			b, _ := pkt.Serialize()
			return b
		}
		pkt.E2E = []*slayers.EndToEndOption{peer.NewAuthOption(c13SPIServer, 0)}
		b, err := peer.SignPkt(pkt, cfg.key(last, name))
		if err != nil {
			return nil
		}
		switch name {
		case "bad-mac":
			off := bytes.Index(b, pkt.E2E[0].OptData[12:])
			b[off+rng.IntN(16)] ^= 1 << uint(rng.IntN(8))
		case "wrong-key":
			k := randBytes(rng, 16)
			b, _ = peer.SignPkt(pkt, k)
		case "payload-changed":
			b[len(b)-48+2] ^= 0x10 // poll byte, after signing
		case "forged-payload-genuine-datagram-appended":
			// an on-path attacker keeps header and authenticator of a genuinely authenticated reply, replaces the
			// UDP datagram in place by its own and appends the genuine datagram behind the SCION payload
			zero := *pkt
			zero.Payload = make([]byte, len(payload))
			zero.E2E = []*slayers.EndToEndOption{peer.NewAuthOption(c13SPIServer, 0)}
			if g, err := peer.SignPkt(&zero, cfg.key(last, "good")); err == nil && len(g) == len(b) {
				l4 := 8 + len(payload)
				off := len(g) - l4
				forged := append([]byte{}, g[:off]...)
				forged = append(forged, b[off:]...) // the attacker's datagram (same length, other content)
				forged = append(forged, g[off:]...) // the datagram the MAC was made for
				b = forged
			}
		case "client-direction-spi": // signed as if it were a request
			pkt.E2E = []*slayers.EndToEndOption{peer.NewAuthOption(c13SPIClient, 0)}
			b, _ = peer.SignPkt(pkt, cfg.key(last, "good"))
		}
		return b
	}
	s, err := peer.NewNTPServer(netip.AddrPortFrom(srvIP, 0), p.handle)
	if err != nil {
		r.Inconclusive(err.Error())
		return
	}
	defer s.Close()
	p.srv = s
	c := &client.SCIONClient{Log: log}
	c.Auth.Enabled = true
	c.Auth.DRKeyFetcher = cfg.fetcher
	pth := handPath(rng, c05LIA, c05RIA, s.Addr, 0)
	modes := append([]string{"bad-mac", "wrong-key", "payload-changed", "none", "other-spi", "client-direction-spi", "good", "forged-payload-genuine-datagram-appended"}, cfg.extraModes...)
	for i := 0; i < r.Pick(140, 5000); i++ {
		id := fmt.Sprintf("%s%d", cfg.prefix, i)
		if r.Only() != "" && r.Only() != id {
			continue
		}
		mode = modes[i%len(modes)]
		p.mu.Lock()
		// every third call the crafted datagram arrives twice in a row: the second one meets a client that
		// has used up its one retry
		nscript := 1
		if (i/len(modes))%3 == 2 {
			nscript = 2
		}
		p.script = nil
		for k := 0; k < nscript; k++ {
			p.script = append(p.script, c05Mut{name: "scion-auth:" + mode})
		}
		p.sent = make([]bool, nscript)
		p.sentBytes = make([][]byte, nscript)
		p.mu.Unlock()
		h.take()
		ctx, cancel := context.WithTimeout(context.Background(), time.Second)
		var off time.Duration
		var ts time.Time
		var err error
		pnc := c02Recover(func() {
			la := udp.UDPAddr{IA: c05LIA, Host: &net.UDPAddr{IP: cliIP.AsSlice()}}
			ra := udp.UDPAddr{IA: c05RIA, Host: &net.UDPAddr{IP: srvIP.AsSlice(), Port: 10123}}
			ts, off, err = client.MeasureClockOffsetSCION(ctx, log, []*client.SCIONClient{c}, la, ra, []snet.Path{pth})
		})
		cancel()
		r.Eval(1)
		recs := h.take()
		w := map[string]any{"reply_authenticator": mode, "error": fmt.Sprint(err), "offset": off.String(), "request_had_authenticator": reqHadAuth}
		if pnc != nil {
			w["panic"] = fmt.Sprint(pnc)
			r.Violation("scion-client|panic|reply authenticator "+mode, id, w)
			continue
		}
		if !reqHadAuth {
			r.Violation("scion-client|wrong-value:request of a client with authentication enabled carries no authenticator", id, w)
			continue
		}
		if err != nil {
			r.Class("client:error:" + mode)
			continue
		}
		_ = ts
		k, ok := c05Identify(off, nscript)
		bad := mode == "bad-mac" || mode == "wrong-key" || mode == "payload-changed" || strings.HasPrefix(mode, "key:") || mode == "forged-payload-genuine-datagram-appended"
		switch {
		case !ok:
			r.Violation("scion-client|wrong-value:reported offset corresponds to none of the datagrams sent", id, w)
		case k >= 0 && k < nscript && bad:
			if nscript > 1 {
				w["crafted_datagrams_in_a_row"] = nscript
			}
			r.Violation("scion-client|wrong-value:response with the server's authenticator SPI whose MAC does not verify was accepted|"+mode, id, w)
		case k >= 0 && k < nscript:
			r.Class("client:accepted:" + mode)
			if mode == "good" || true {
				// which record logged the acceptance?
				for _, rc := range recs {
					if rc["msg"] == "received response" {
						if a, _ := rc["auth"].(bool); a != (mode == "good") && mode == "good" {
							r.Violation("scion-client|wrong-value:correctly authenticated response not logged as authenticated", id, w)
						}
					}
				}
			}
		default:
			r.Class("client:skipped-to-genuine:" + mode)
			for _, rc := range recs {
				if rc["msg"] == "received response" {
					if a, _ := rc["auth"].(bool); !a {
						r.Violation("scion-client|wrong-value:correctly authenticated response not logged as authenticated", id, w)
					} else {
						r.Class("client:genuine-logged-authenticated")
					}
				}
			}
		}
		r.Distinct("client" + mode + fmt.Sprint(err == nil, k))
	}
}

func init() {
	Legs["c13client"] = func(args []string) {
		r := ev.NewLeg("C13")
		c13Client(r)
		r.FinishLeg()
	}
	register("C13", "exploration", func(r *ev.Run) {
		var env []string
		if r.Only() != "" {
			env = append(env, "VERIF_ONLY="+r.Only())
		}
		if r.Only() == "" || !strings.ContainsRune("cknre", rune(r.Only()[0])) {
			c13Server(r)
		}
		if r.Only() == "" || r.Only()[0] == 'k' {
			c13DRKey(r)
		}
		if r.Only() == "" || r.Only()[0] == 'n' {
			c13NoDaemon(r)
		}
		if r.Only() == "" || r.Only()[0] == 'c' {
			r.CrashViolation(r.RunLeg("plain", "c13client", 20*time.Minute, env), "scion-client")
		}
		if r.Only() == "" || r.Only()[0] == 'e' || r.Only()[0] == 'r' {
			r.CrashViolation(r.RunLeg("plain", "c13e2e", 20*time.Minute, append(env, "USE_MOCK_KEYS=false")), "scion-client")
		}
		r.Assume("byte-level legs: DRKey replaced by the project's mock keys (USE_MOCK_KEYS=true, the zero key); key-binding legs: real DRKey fetching from a scripted SCION daemon (gRPC) whose keys the harness can derive for every identity and epoch; hand-built paths, no control plane")
		r.Assume("'definitely covered' bytes = UDP header and payload, authenticator timestamp/sequence, flow id, hop-field MACs, the MAC itself (scion library spao input)")
		r.Finish("real SCION listeners (service port and end-host port) and dispatcher in a child process: requests over empty / 1..3-segment / one-hop paths with IPv4 and IPv6 host addresses, with and without the time service's authenticator (MAC computed independently with spao); "+
			"authenticated requests unmodified (must be served, reply must carry the server SPI and verify) or with a covered byte changed (must not be served); another protocol's authenticator; SCMP echo and traceroute on all three sockets; "+
			"packets for other end-host ports on the end-host port, the dispatcher and the service port; and the real SCION client with authentication against a scripted peer whose replies carry a good / bad-MAC / wrong-key / changed-payload / absent / foreign-SPI authenticator. "+
			"Real DRKey fetching (no mock keys, scripted daemon): requests signed with the host-to-host key of their own (server ISD-AS, server host, client ISD-AS, client host, epoch) are served and the reply verifies under that key, requests signed with the key of an identity differing in one component / of the identity served just before (cached level-2 key) / of another epoch or protocol are not; the real client accepts only replies under its own key (not: roles exchanged, other host/ISD-AS, previous epoch, other protocol); real client and real listener fetching from the same daemon complete authenticated exchanges (basic and interleaved, several ISD-AS pairs); a listener without any daemon survives authenticated requests. "+
			"Oracle: reply iff allowed, addressing exchanged, path = library reversal, payload intact, forwarding exactly as stated and never to port 30041, bad MACs never accepted. distinct_nontrivial = distinct (auth, mutation, socket, address family, path kind) and client outcomes", 14)
	})
}
