package monitors

import "verif/harness/internal/ev"

// c08Clients drives the real clients against hostile responders (filled in below).
func c08Clients(r *ev.Run, e *c08Env) {}
