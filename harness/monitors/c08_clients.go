package monitors

import (
	"bufio"
	"bytes"
	"context"
	"encoding/binary"
	"flag"
	"fmt"
	"log/slog"
	"math/rand/v2"
	"net"
	"net/netip"
	"os"
	"os/exec"
	"strings"
	"sync"
	"syscall"
	"time"

	"github.com/scionproto/scion/pkg/slayers"
	"github.com/scionproto/scion/pkg/snet"

	"example.com/scion-time/core/client"
	"example.com/scion-time/net/csptp"
	"example.com/scion-time/net/scion"
	"example.com/scion-time/net/udp"

	"verif/harness/internal/ev"
	"verif/harness/internal/peer"
)

// C08, client side: the real clients run in a child process (race build) in an endless loop of
// measurements against addresses served by the parent, which answers every request with the
// current hostile response. The child prints one ITER line per completed call; no ITER for
// 3 x 5 s while the child lives is a hang, a dead child is a crash.

func c08ClientLoop(args []string) {
	fs := flag.NewFlagSet("c08client", flag.ExitOnError)
	kind := fs.String("kind", "ip", "ip|ipi|ipnts|scion|scionauth|csptp")
	srv := fs.String("server", "", "server address (ip:port)")
	ke := fs.String("ke", "", "NTS-KE address (ip:port)")
	local := fs.String("local", "127.0.0.1", "local address")
	_ = fs.Parse(args)
	registerScriptedRealClock()
	log := slog.New(slog.DiscardHandler)
	sa := netip.MustParseAddrPort(*srv)
	la := netip.MustParseAddr(*local)
	var call func(ctx context.Context) error
	switch *kind {
	case "ip", "ipi":
		c := &client.IPClient{Log: log, InterleavedMode: *kind == "ipi"}
		call = func(ctx context.Context) error {
			_, _, err := client.MeasureClockOffsetIP(ctx, log, c, &net.UDPAddr{IP: la.AsSlice()}, net.UDPAddrFromAddrPort(sa))
			return err
		}
	case "ipnts":
		c := &client.IPClient{Log: log}
		c.Auth.Enabled = true
		c.Auth.NTSKEFetcher = *c20NewFetcher(netip.MustParseAddrPort(*ke))
		call = func(ctx context.Context) error {
			_, _, err := client.MeasureClockOffsetIP(ctx, log, c, &net.UDPAddr{IP: la.AsSlice()}, &net.UDPAddr{IP: sa.Addr().AsSlice(), Port: 1})
			return err
		}
	case "scionnts":
		c := &client.SCIONClient{Log: log}
		c.Auth.NTSEnabled = true
		c.Auth.NTSKEFetcher = *c20NewFetcher(netip.MustParseAddrPort(*ke))
		pth := handPath(rand.New(rand.NewPCG(1, 2)), c05LIA, c05RIA, sa, 0)
		call = func(ctx context.Context) error {
			l := udp.UDPAddr{IA: c05LIA, Host: &net.UDPAddr{IP: la.AsSlice()}}
			r := udp.UDPAddr{IA: c05RIA, Host: &net.UDPAddr{IP: sa.Addr().AsSlice(), Port: 10123}}
			_, _, err := client.MeasureClockOffsetSCION(ctx, log, []*client.SCIONClient{c}, l, r, []snet.Path{pth})
			return err
		}
	case "scion", "scionauth":
		c := &client.SCIONClient{Log: log, InterleavedMode: true}
		if *kind == "scionauth" {
			c.Auth.Enabled = true
			c.Auth.DRKeyFetcher = scion.NewFetcher(nil)
		}
		pth := handPath(rand.New(rand.NewPCG(1, 2)), c05LIA, c05RIA, sa, 0)
		call = func(ctx context.Context) error {
			l := udp.UDPAddr{IA: c05LIA, Host: &net.UDPAddr{IP: la.AsSlice()}}
			r := udp.UDPAddr{IA: c05RIA, Host: &net.UDPAddr{IP: sa.Addr().AsSlice(), Port: 10123}}
			_, _, err := client.MeasureClockOffsetSCION(ctx, log, []*client.SCIONClient{c}, l, r, []snet.Path{pth})
			return err
		}
	case "csptp":
		c := &client.CSPTPClientIP{Log: log}
		call = func(ctx context.Context) error {
			_, _, err := c.MeasureClockOffset(ctx, la, sa.Addr())
			return err
		}
	}
	fmt.Println("READY")
	for i := 0; ; i++ {
		d := 30 * time.Millisecond
		if strings.HasSuffix(*kind, "nts") {
			// a key exchange may take longer; a measurement goroutine must not outlive its round and
			// overlap with the next one on the same client (see DESIGN.md, observation O2)
			d = 150 * time.Millisecond
		}
		ctx, cancel := context.WithTimeout(context.Background(), d)
		err := call(ctx)
		cancel()
		if err != nil {
			fmt.Printf("ITER %d err\n", i)
		} else {
			fmt.Printf("ITER %d ok\n", i)
		}
	}
}

func init() { Legs["c08client"] = c08ClientLoop }

// startChildLeg starts an arbitrary leg like StartTarget does for the listeners.
func startChildLeg(variant, leg string, args ...string) (*Target, error) {
	bin := os.Getenv("VERIF_MON_PLAIN")
	if variant == "race" {
		bin = os.Getenv("VERIF_MON_RACE")
	}
	if bin == "" {
		bin = os.Args[0]
	}
	t := &Target{stderr: &bytes.Buffer{}, logCh: make(chan string, 4096), done: make(chan struct{})}
	t.cmd = exec.Command(bin, append([]string{"leg", leg}, args...)...)
	t.cmd.Env = append(os.Environ(), "USE_MOCK_KEYS=true", "GOTRACEBACK=all")
	t.cmd.Stderr = t.stderr
	t.cmd.SysProcAttr = &syscall.SysProcAttr{Pdeathsig: syscall.SIGKILL}
	out, err := t.cmd.StdoutPipe()
	if err != nil {
		return nil, err
	}
	if err := t.cmd.Start(); err != nil {
		return nil, err
	}
	ready := make(chan bool, 1)
	go func() {
		sc := bufio.NewScanner(out)
		for sc.Scan() {
			ln := sc.Text()
			if ln == "READY" {
				ready <- true
				continue
			}
			select {
			case t.logCh <- ln:
			default:
			}
		}
		t.exit = t.cmd.Wait()
		close(t.done)
	}()
	select {
	case <-ready:
		return t, nil
	case <-t.done:
		return nil, fmt.Errorf("child exited during start-up: %s", tailStr(t.stderr.String(), 1500))
	case <-time.After(60 * time.Second):
		t.Kill()
		return nil, fmt.Errorf("child not ready")
	}
}

type c08Resp struct {
	class string
	// build returns the datagrams to send in answer to one request (possibly none)
	build func(req []byte, rng *rand.Rand) [][]byte
}

// c08DriveClient feeds hostile responses to one kind of client.
func c08DriveClient(r *ev.Run, name string, args []string, serve func(cur func() *c08Resp, seen func()) (closeFn func(), err error), resps []c08Resp) {
	var mu sync.Mutex
	var cur *c08Resp
	requests := 0
	closeFn, err := serve(func() *c08Resp { mu.Lock(); defer mu.Unlock(); return cur }, func() { mu.Lock(); requests++; mu.Unlock() })
	if err != nil {
		r.Inconclusive(name + ": " + err.Error())
		return
	}
	defer closeFn()
	var child *Target
	start := func() bool {
		var err error
		child, err = startChildLeg("race", "c08client", args...)
		if err != nil {
			r.Inconclusive(name + ": " + err.Error())
			return false
		}
		return true
	}
	if !start() {
		return
	}
	defer func() { child.Kill() }()
	waitIter := func(d time.Duration) bool { return child.WaitLog("ITER", d) }
	skip := map[string]bool{}
	for i := range resps {
		rs := &resps[i]
		if skip[rs.class] || (r.Only() != "" && r.Only() != rs.class) {
			continue
		}
		mu.Lock()
		cur = rs
		before := requests
		mu.Unlock()
		child.DrainLogs()
		okIter := false
		for a := 0; a < 3 && !okIter; a++ {
			// the response counts once a request arrived while it was current and a call completed afterwards
			deadline := time.Now().Add(5 * time.Second)
			for time.Now().Before(deadline) && child.Alive() {
				if !waitIter(time.Until(deadline)) {
					break
				}
				mu.Lock()
				got := requests > before
				mu.Unlock()
				if got {
					okIter = true
					break
				}
			}
			if !child.Alive() {
				break
			}
		}
		r.Eval(1)
		if okIter {
			r.Class(name + ":survived:" + rs.class)
			r.Distinct(name + rs.class + fmt.Sprint(i))
			continue
		}
		w := map[string]any{"client": name, "response_class": rs.class}
		if !child.Alive() {
			first, frame := child.ExitInfo()
			w["panic"], w["frame"], w["stderr"] = first, frame, child.Stderr()
			kind := "panic"
			if strings.Contains(first, "checkptr") {
				kind = "checkptr"
			}
			r.Violation(name+"|"+kind+":"+c08Sig(frame)+"|"+rs.class, rs.class, w)
		} else {
			w["goroutines"] = child.Dump()
			r.Violation(name+"|hang|"+rs.class, rs.class, w)
		}
		skip[rs.class] = true
		child.Kill()
		if !start() {
			return
		}
	}
	r.Class("endpoint:" + name)
}

// ---- hostile responses

func c08NTPResponses(r *ev.Run, rng *rand.Rand) []c08Resp {
	var out []c08Resp
	add := func(class string, f func(req []byte, rng *rand.Rand) [][]byte) { out = append(out, c08Resp{class, f}) }
	genuine := func(req []byte) peer.NTPFields {
		f, _ := peer.ParseNTP(req)
		now := time.Now()
		return peer.NTPFields{LVM: 0x24, Stratum: 1, Origin: f.Transmit, Receive: peer.ToNTP64(now), Transmit: peer.ToNTP64(now)}
	}
	for l := 0; l <= 120; l += r.Pick(3, 1) {
		l := l
		add("ntp-response-of-each-length", func(req []byte, rng *rand.Rand) [][]byte {
			b := append(genuine(req).Bytes(), randBytes(rng, 80)...)
			return [][]byte{b[:l]}
		})
	}
	for _, l := range []int{1024, 1025, 2048, 9000, 65000} {
		l := l
		add("ntp-response-larger-than-buffer", func(req []byte, rng *rand.Rand) [][]byte {
			return [][]byte{append(genuine(req).Bytes(), randBytes(rng, l-48)...)}
		})
	}
	for v := 0; v < 256; v += r.Pick(5, 1) {
		v := byte(v)
		add("ntp-response-first-byte", func(req []byte, rng *rand.Rand) [][]byte { g := genuine(req); g.LVM = v; return [][]byte{g.Bytes()} })
	}
	stamps := []uint64{0, 1, 1 << 32, 0x7fffffffffffffff, 0x8000000000000000, 0xffffffffffffffff, 0xfffffffe00000000}
	for _, rx := range stamps {
		for _, tx := range stamps {
			rx, tx := rx, tx
			add("ntp-response-extreme-timestamps", func(req []byte, rng *rand.Rand) [][]byte {
				g := genuine(req)
				g.Receive, g.Transmit = rx, tx
				return [][]byte{g.Bytes()}
			})
			add("ntp-response-extreme-timestamps(interleaved origin)", func(req []byte, rng *rand.Rand) [][]byte {
				g := genuine(req)
				f, _ := peer.ParseNTP(req)
				g.Origin, g.Receive, g.Transmit = f.Receive, rx, tx
				return [][]byte{g.Bytes()}
			})
		}
	}
	for k := 0; k < r.Pick(100, 5000); k++ {
		add("ntp-response-bitflips", func(req []byte, rng *rand.Rand) [][]byte {
			b := genuine(req).Bytes()
			for f := 1 + rng.IntN(4); f > 0; f-- {
				b[rng.IntN(len(b))] ^= 1 << uint(rng.IntN(8))
			}
			return [][]byte{b, genuine(req).Bytes()}
		})
		add("ntp-response-random", func(req []byte, rng *rand.Rand) [][]byte {
			return [][]byte{randBytes(rng, rng.IntN(200)), randBytes(rng, 48)}
		})
	}
	add("ntp-response-burst", func(req []byte, rng *rand.Rand) [][]byte {
		var o [][]byte
		for i := 0; i < 50; i++ {
			o = append(o, genuine(req).Bytes())
		}
		return o
	})
	return out
}

func c08Clients(r *ev.Run, e *c08Env) {
	srvIP, cliIP := blockIP(r, 8, 21), blockIP(r, 8, 22)
	var wg sync.WaitGroup
	defer wg.Wait()
	// ---- IP clients (basic and interleaved)
	for _, kind := range []string{"ip", "ipi"} {
		s, err := peer.NewNTPServer(netip.AddrPortFrom(srvIP, 0), nil)
		if err != nil {
			r.Inconclusive(err.Error())
			continue
		}
		rng := rand.New(rand.NewPCG(uint64(r.Seed()), 7))
		wg.Add(1)
		go func() {
			defer wg.Done()
			c08DriveClient(r, "ip-client("+kind+")", []string{"-kind", kind, "-server", s.Addr.String(), "-local", cliIP.String()},
				func(cur func() *c08Resp, seen func()) (func(), error) {
					s.SetHandler(func(s *peer.NTPServer, dg []byte, from netip.AddrPort, rx time.Time) {
						c := cur()
						seen()
						if c == nil {
							return
						}
						for _, b := range c.build(dg, rng) {
							s.Send(from, b)
						}
					})
					return s.Close, nil
				}, c08NTPResponses(r, rng))
		}()
	}
	// ---- SCION clients (plain and authenticated)
	for _, kind := range []string{"scion", "scionauth"} {
		s, err := peer.NewNTPServer(netip.AddrPortFrom(srvIP, 0), nil)
		if err != nil {
			r.Inconclusive(err.Error())
			continue
		}
		rng := rand.New(rand.NewPCG(uint64(r.Seed()), 8))
		wg.Add(1)
		go func() {
			defer wg.Done()
			c08DriveClient(r, "scion-client("+kind+")", []string{"-kind", kind, "-server", s.Addr.String(), "-local", cliIP.String()},
				func(cur func() *c08Resp, seen func()) (func(), error) {
					s.SetHandler(func(s *peer.NTPServer, dg []byte, from netip.AddrPort, rx time.Time) {
						ps, err := peer.ParseSCION(dg)
						if err != nil || !ps.HasUDP {
							return
						}
						c := cur()
						seen()
						if c == nil {
							return
						}
						for _, b := range c.build(dg, rng) {
							s.Send(from, b)
						}
					})
					return s.Close, nil
				}, c08SCIONResponses(r, rng, srvIP, cliIP, kind == "scionauth"))
		}()
	}
	// ---- NTS clients (IP and SCION) against a hostile key-exchange server: cookie sizes, server records
	for _, kind := range []string{"ipnts", "scionnts"} {
		kind := kind
		wg.Add(1)
		go func() {
			defer wg.Done()
			c08DriveNTSClient(r, kind, srvIP, cliIP)
		}()
	}
	// ---- CSPTP client
	{
		ev319, err1 := peer.NewNTPServer(netip.AddrPortFrom(srvIP, 319), nil)
		ev320, err2 := peer.NewNTPServer(netip.AddrPortFrom(srvIP, 320), nil)
		if err1 != nil || err2 != nil {
			r.Inconclusive("bind CSPTP ports")
			return
		}
		rng := rand.New(rand.NewPCG(uint64(r.Seed()), 9))
		c08DriveClient(r, "csptp-client", []string{"-kind", "csptp", "-server", netip.AddrPortFrom(srvIP, 319).String(), "-local", cliIP.String()},
			func(cur func() *c08Resp, seen func()) (func(), error) {
				h := func(port uint16) func(s *peer.NTPServer, dg []byte, from netip.AddrPort, rx time.Time) {
					return func(s *peer.NTPServer, dg []byte, from netip.AddrPort, rx time.Time) {
						c := cur()
						if port == 320 {
							seen()
						}
						if c == nil {
							return
						}
						// responses are built per request; element 0 is sent from the event port, element 1 from the general port
						bs := c.build(dg, rng)
						if port == 319 && len(bs) > 0 && bs[0] != nil {
							s.Send(from, bs[0])
						}
						if port == 320 && len(bs) > 1 && bs[1] != nil {
							s.Send(from, bs[1])
						}
					}
				}
				ev319.SetHandler(h(319))
				ev320.SetHandler(h(320))
				return func() { ev319.Close(); ev320.Close() }, nil
			}, c08CSPTPResponses(r, rng))
	}
}

func c08SCIONResponses(r *ev.Run, rng *rand.Rand, srvIP, cliIP netip.Addr, auth bool) []c08Resp {
	var out []c08Resp
	add := func(class string, f func(req []byte, rng *rand.Rand) [][]byte) { out = append(out, c08Resp{class, f}) }
	// genuine SCION reply to the request datagram
	reply := func(reqDg []byte, mod func(p *peer.SCIONPkt, ntp *peer.NTPFields)) []byte {
		ps, err := peer.ParseSCION(reqDg)
		if err != nil || !ps.HasUDP {
			return nil
		}
		f, _ := peer.ParseNTP(ps.UDP.Payload)
		now := time.Now()
		fl := peer.NTPFields{LVM: 0x24, Stratum: 1, Origin: f.Transmit, Receive: peer.ToNTP64(now), Transmit: peer.ToNTP64(now)}
		pkt := &peer.SCIONPkt{SrcIA: ps.SCION.DstIA, DstIA: ps.SCION.SrcIA, SrcHost: srvIP, DstHost: cliIP, SrcPort: ps.UDP.DstPort, DstPort: ps.UDP.SrcPort}
		if rev, err := ps.SCION.Path.Reverse(); err == nil {
			pkt.Path = rev
		}
		if mod != nil {
			mod(pkt, &fl)
		}
		if pkt.Payload == nil {
			pkt.Payload = fl.Bytes()
		}
		b, err := pkt.Serialize()
		if err != nil {
			return nil
		}
		return b
	}
	add("scion-response-genuine", func(req []byte, rng *rand.Rand) [][]byte { return [][]byte{reply(req, nil)} })
	for l := 0; l <= 140; l += r.Pick(3, 1) {
		l := l
		add("scion-response-truncated", func(req []byte, rng *rand.Rand) [][]byte {
			b := reply(req, nil)
			if l < len(b) {
				b = b[:l]
			}
			return [][]byte{b}
		})
	}
	for _, off := range []int{4, 5, 8, 9} {
		for v := 0; v < 256; v += r.Pick(3, 1) {
			off, v := off, byte(v)
			add([]string{4: "scion-response-next-header", 5: "scion-response-header-length", 8: "scion-response-path-type", 9: "scion-response-address-type-length"}[off],
				func(req []byte, rng *rand.Rand) [][]byte {
					b := append(reply(req, nil), randBytes(rng, 40)...)
					b[off] = v
					return [][]byte{b}
				})
		}
	}
	// host addresses of non-IP types and lengths (consistent packets, built with the layer serializer)
	for _, t := range []slayers.AddrType{0, 1, 2, 3, 4, 5, 6, 7, 8, 12, 15} {
		for _, side := range []int{0, 1} {
			t, side := t, side
			add("scion-response-non-ip-host-address", func(req []byte, rng *rand.Rand) [][]byte {
				return [][]byte{reply(req, func(p *peer.SCIONPkt, _ *peer.NTPFields) {
					raw := randBytes(rng, t.Length())
					if side == 0 {
						p.RawSrcType, p.RawSrc = &t, raw
					} else {
						p.RawDstType, p.RawDst = &t, raw
					}
				})}
			})
		}
	}
	// timestamp option 253: bytes the client hands to its cmsg parser
	for _, l := range []int{0, 1, 15, 16, 17, 20, 24, 31, 32, 47, 48, 63, 64, 65, 80, 96, 128} {
		for variant := 0; variant < 6; variant++ {
			l, variant := l, variant
			add("scion-response-timestamp-option", func(req []byte, rng *rand.Rand) [][]byte {
				d := randBytes(rng, l)
				if l >= 16 {
					lens := []uint64{0, 15, 16, 17, uint64(l), uint64(l) + 1, 64, 1 << 40, uint64(l) - 1, uint64(l) - 3}
					binary.LittleEndian.PutUint64(d[0:], lens[rng.IntN(len(lens))])
					binary.LittleEndian.PutUint32(d[8:], 1)                                // SOL_SOCKET
					binary.LittleEndian.PutUint32(d[12:], []uint32{65, 35, 37}[variant%3]) // SO_TIMESTAMPING_NEW, SCM_TIMESTAMPNS, ...
				}
				if l >= 64 && variant >= 3 { // a well-formed timestamping cmsg carrying a time far in the past / future
					binary.LittleEndian.PutUint64(d[0:], 64)
					for i := 16; i < 64; i++ {
						d[i] = 0
					}
					binary.LittleEndian.PutUint64(d[16:], []uint64{1, 1 << 40, uint64(time.Now().Unix() - 3600)}[variant-3])
					if variant == 5 { // both the software and the hardware slot set
						binary.LittleEndian.PutUint64(d[48:], 12345)
					}
				}
				return [][]byte{reply(req, func(p *peer.SCIONPkt, _ *peer.NTPFields) {
					p.E2E = []*slayers.EndToEndOption{{OptType: 253, OptData: d}}
				})}
			})
		}
	}
	// a well-formed timestamping cmsg whose time lies just behind the transmit time the request itself
	// carries, i.e. between the client's two readings of its own transmit time
	for _, delta := range []int64{0, 1, 2, 100, 1000, 10000, 100000} {
		for _, typ := range []uint32{65, 35, 37} {
			delta, typ := delta, typ
			add("scion-response-timestamp-option-just-after-request-transmit-time", func(req []byte, rng *rand.Rand) [][]byte {
				var sec, nsec uint64
				if ps, err := peer.ParseSCION(req); err == nil && ps.HasUDP {
					if f, ok := peer.ParseNTP(ps.UDP.Payload); ok {
						sec = f.Transmit>>32 - 2208988800
						nsec = (f.Transmit&0xffffffff)*1000000000>>32 + 1 + uint64(delta)
						sec, nsec = sec+nsec/1000000000, nsec%1000000000
					}
				}
				d := make([]byte, 64)
				binary.LittleEndian.PutUint64(d[0:], 64)
				binary.LittleEndian.PutUint32(d[8:], 1)
				binary.LittleEndian.PutUint32(d[12:], typ)
				binary.LittleEndian.PutUint64(d[16:], sec)
				binary.LittleEndian.PutUint64(d[24:], nsec)
				return [][]byte{reply(req, func(p *peer.SCIONPkt, _ *peer.NTPFields) {
					p.E2E = []*slayers.EndToEndOption{{OptType: 253, OptData: d}}
				})}
			})
		}
	}
	for l := 0; l <= 44; l++ {
		l := l
		add("scion-response-authenticator-option-length", func(req []byte, rng *rand.Rand) [][]byte {
			return [][]byte{reply(req, func(p *peer.SCIONPkt, _ *peer.NTPFields) {
				o := &slayers.EndToEndOption{OptType: slayers.OptTypeAuthenticator, OptData: randBytes(rng, l)}
				if l >= 5 {
					o.OptData[0], o.OptData[1], o.OptData[2], o.OptData[3], o.OptData[4] = 0, 2, 0, 123, 0 // server SPI
				}
				p.E2E = []*slayers.EndToEndOption{o}
			})}
		})
	}
	for t := 0; t < 256; t += r.Pick(7, 1) {
		t := t
		add("scion-response-scmp", func(req []byte, rng *rand.Rand) [][]byte {
			return [][]byte{reply(req, func(p *peer.SCIONPkt, _ *peer.NTPFields) {
				p.SCMP = &slayers.SCMP{TypeCode: slayers.CreateSCMPTypeCode(slayers.SCMPType(t), 0)}
				p.Payload = randBytes(rng, rng.IntN(40))
			})}
		})
	}
	for k := 0; k < r.Pick(150, 6000); k++ {
		add("scion-response-bitflips", func(req []byte, rng *rand.Rand) [][]byte {
			b := reply(req, nil)
			for f := 1 + rng.IntN(3); f > 0 && len(b) > 0; f-- {
				b[rng.IntN(len(b))] ^= 1 << uint(rng.IntN(8))
			}
			return [][]byte{b, reply(req, nil)}
		})
	}
	stamps := []uint64{0, 1, 0x7fffffffffffffff, 0x8000000000000000, 0xffffffffffffffff}
	for _, rx := range stamps {
		for _, tx := range stamps {
			rx, tx := rx, tx
			add("scion-response-extreme-timestamps", func(req []byte, rng *rand.Rand) [][]byte {
				return [][]byte{reply(req, func(_ *peer.SCIONPkt, f *peer.NTPFields) { f.Receive, f.Transmit = rx, tx })}
			})
		}
	}
	for k := 0; k < r.Pick(60, 3000); k++ {
		add("scion-response-random", func(req []byte, rng *rand.Rand) [][]byte { return [][]byte{randBytes(rng, rng.IntN(200))} })
	}
	_ = auth
	return out
}

func c08CSPTPResponses(r *ev.Run, rng *rand.Rand) []c08Resp {
	var out []c08Resp
	add := func(class string, f func(req []byte, rng *rand.Rand) [][]byte) { out = append(out, c08Resp{class, f}) }
	msg := func(req []byte, typ uint8, l int) []byte {
		b := make([]byte, max(l, 0))
		if len(req) >= 44 && l >= 44 {
			var m csptp.Message
			_ = csptp.DecodeMessage(&m, req[:44])
			m.SdoIDMessageType, m.MessageLength = typ, uint16(l)
			csptp.EncodeMessage(b[:44], &m)
		}
		return b
	}
	genuineFU := func(req []byte, flags uint32) []byte {
		tlv := csptp.ResponseTLV{Type: csptp.TLVTypeOrganizationExtension, FlagField: flags,
			OrganizationID:      [3]uint8{csptp.OrganizationIDMeinberg0, csptp.OrganizationIDMeinberg1, csptp.OrganizationIDMeinberg2},
			OrganizationSubType: [3]uint8{csptp.OrganizationSubTypeResponse0, csptp.OrganizationSubTypeResponse1, csptp.OrganizationSubTypeResponse2}}
		n := 44 + csptp.EncodedResponseTLVLength(&tlv)
		b := msg(req, csptp.MessageTypeFollowUp, n)
		tlv.Length = uint16(n - 44)
		csptp.EncodeResponseTLV(b[44:], &tlv)
		return b
	}
	add("csptp-response-genuine", func(req []byte, rng *rand.Rand) [][]byte { return [][]byte{msg(req, 0, 44), genuineFU(req, 1)} })
	for l := 0; l <= 110; l += r.Pick(2, 1) {
		l := l
		add("csptp-response-of-each-length", func(req []byte, rng *rand.Rand) [][]byte {
			a := append(msg(req, 0, 44), randBytes(rng, 80)...)[:l]
			b := append(genuineFU(req, 1), randBytes(rng, 40)...)[:l]
			return [][]byte{a, b}
		})
		add("csptp-response-random-of-each-length", func(req []byte, rng *rand.Rand) [][]byte {
			return [][]byte{randBytes(rng, l), randBytes(rng, l)}
		})
	}
	for l := 4; l < 44; l++ { // shorter than a header, but consistent with its own length field
		l := l
		add("csptp-response-shorter-than-header", func(req []byte, rng *rand.Rand) [][]byte {
			mk := func(typ byte) []byte {
				b := randBytes(rng, l)
				b[0], b[1] = typ, csptp.PTPVersion
				binary.BigEndian.PutUint16(b[2:], uint16(l))
				if l >= 32 && len(req) >= 32 {
					copy(b[30:32], req[30:32]) // sequence id
				}
				return b
			}
			return [][]byte{mk(0), mk(8)}
		})
	}
	for _, ml := range []int{0, 1, 43, 44, 45, 80, 97, 98, 99, 0xffff} {
		for _, l := range []int{44, 80, 98} {
			ml, l := ml, l
			add("csptp-response-message-length", func(req []byte, rng *rand.Rand) [][]byte {
				a, b := msg(req, 0, l), msg(req, 8, l)
				binary.BigEndian.PutUint16(a[2:], uint16(ml))
				binary.BigEndian.PutUint16(b[2:], uint16(ml))
				for i := 44; i < l; i++ {
					b[i] = byte(rng.IntN(256))
				}
				return [][]byte{a, b}
			})
		}
	}
	for _, fl := range []uint32{0, 1, 2, 3, 0xffffffff} {
		fl := fl
		add("csptp-response-tlv-flags", func(req []byte, rng *rand.Rand) [][]byte {
			b := genuineFU(req, fl)
			return [][]byte{msg(req, 0, 44), b, b[:min(len(b), 80)]}
		})
	}
	for k := 0; k < r.Pick(60, 3000); k++ {
		add("csptp-response-bitflips", func(req []byte, rng *rand.Rand) [][]byte {
			a, b := msg(req, 0, 44), genuineFU(req, 1)
			for f := 1 + rng.IntN(3); f > 0; f-- {
				a[rng.IntN(len(a))] ^= 1 << uint(rng.IntN(8))
				b[rng.IntN(len(b))] ^= 1 << uint(rng.IntN(8))
			}
			return [][]byte{a, b}
		})
	}
	return out
}

// c08DriveNTSClient: the real NTS-enabled client against a scripted key-exchange server that hands out
// cookies of hostile sizes and names NTP servers that are not IP literals.
func c08DriveNTSClient(r *ev.Run, kind string, srvIP, cliIP netip.Addr) {
	name := "nts-client(" + kind + ")"
	// the NTP side answers at once with a reply the NTS client rejects, so that calls end quickly and spend cookies
	ntp, err := peer.NewNTPServer(netip.AddrPortFrom(srvIP, 0), func(s *peer.NTPServer, dg []byte, from netip.AddrPort, rx time.Time) {
		p := dg
		if kind == "scionnts" {
			return // (SCION framing would be needed; the call then ends at its deadline)
		}
		if f, ok := peer.ParseNTP(p); ok {
			now := peer.ToNTP64(time.Now())
			s.Send(from, peer.NTPFields{LVM: 0x24, Stratum: 1, Origin: f.Transmit, Receive: now, Transmit: now}.Bytes())
			s.Send(from, peer.NTPFields{LVM: 0x24, Stratum: 1, Origin: f.Transmit, Receive: now, Transmit: now}.Bytes())
		}
	})
	if err != nil {
		r.Inconclusive(err.Error())
		return
	}
	defer ntp.Close()
	type variant struct {
		class   string
		cookies []int
		server  string
		port    uint16
		stall   int // >0: send only that many bytes of the message and then stall with the connection open
	}
	var vs []variant
	for _, n := range []int{0, 1, 3, 16, 100, 124, 125, 137, 138, 160, 200, 300, 500, 1100, 1300, 4000, 60000} {
		vs = append(vs, variant{"ntske-cookie-size", []int{n, n, n}, srvIP.String(), ntp.Addr.Port(), 0})
		vs = append(vs, variant{"ntske-cookie-size(one cookie)", []int{n}, srvIP.String(), ntp.Addr.Port(), 0})
	}
	vs = append(vs, variant{"ntske-cookie-sizes-mixed", []int{124, 300, 16, 124, 0, 900, 124, 124}, srvIP.String(), ntp.Addr.Port(), 0})
	for _, sv := range []string{"not-an-ip", "", "999.1.1.1", "example.org", "::ffff:1.2.3.4", "fe80::1%lo", strings.Repeat("a", 300), "127.0.0.1:99"} {
		vs = append(vs, variant{"ntske-server-record-not-an-ip-literal", []int{124, 124}, sv, ntp.Addr.Port(), 0})
	}
	for _, p := range []uint16{0, 1, 65535} {
		vs = append(vs, variant{"ntske-port-record", []int{124, 124}, srvIP.String(), p, 0})
	}
	for _, n := range []int{1, 3, 4, 10, 60} { // a server that stops talking in the middle of its message
		vs = append(vs, variant{"ntske-server-stalls-mid-message", []int{124, 124}, srvIP.String(), ntp.Addr.Port(), n})
	}
	var mu sync.Mutex
	cur := vs[0]
	ke, err := peer.NewNTSKEServer(netip.AddrPortFrom(srvIP, 0), nil, func(c *peer.NTSKEConn) ([]byte, []int, int) {
		mu.Lock()
		v := cur
		mu.Unlock()
		var cs [][]byte
		for i, n := range v.cookies {
			b := make([]byte, n)
			for j := range b {
				b[j] = byte(i + j)
			}
			cs = append(cs, b)
		}
		var msg []byte
		msg = append(msg, peer.KERecord(1, true, []byte{0, 0})...)
		msg = append(msg, peer.KERecord(4, true, []byte{0, 15})...)
		msg = append(msg, peer.KERecord(6, false, []byte(v.server))...)
		if v.port != 0 {
			msg = append(msg, peer.KERecord(7, false, []byte{byte(v.port >> 8), byte(v.port)})...)
		}
		for _, c := range cs {
			msg = append(msg, peer.KERecord(5, false, c)...)
		}
		msg = append(msg, peer.KERecord(0, true, nil)...)
		if v.stall > 0 {
			return msg[:min(v.stall, len(msg))], nil, -2
		}
		return msg, nil, -1
	})
	if err != nil {
		r.Inconclusive(err.Error())
		return
	}
	defer ke.Close()
	keAddr := netip.AddrPortFrom(srvIP, uint16(ke.L.Addr().(*net.TCPAddr).Port))
	args := []string{"-kind", kind, "-server", ntp.Addr.String(), "-ke", keAddr.String(), "-local", cliIP.String()}
	child, err := startChildLeg("race", "c08client", args...)
	if err != nil {
		r.Inconclusive(name + ": " + err.Error())
		return
	}
	defer func() { child.Kill() }()
	skip := map[string]bool{}
	for _, v := range vs {
		if skip[v.class] || (r.Only() != "" && r.Only() != v.class) {
			continue
		}
		mu.Lock()
		cur = v
		mu.Unlock()
		before := ke.NumConns()
		child.DrainLogs()
		ok := false
		deadline := time.Now().Add(15 * time.Second)
		iters := 0
		for time.Now().Before(deadline) && child.Alive() {
			if child.WaitLog("ITER", time.Until(deadline)) {
				iters++
			}
			// the variant counts once a key exchange happened under it and calls kept completing afterwards;
			// the cookies of earlier exchanges are used up first (each failed call spends one)
			if ke.NumConns() > before && iters >= 10 {
				ok = true
				break
			}
		}
		r.Eval(1)
		if ok {
			r.Class(name + ":survived:" + v.class)
			r.Distinct(name + v.class + fmt.Sprint(v.cookies, v.server, v.port))
			continue
		}
		w := map[string]any{"client": name, "class": v.class, "cookie_sizes": v.cookies, "server_record": v.server, "port_record": v.port}
		if !child.Alive() {
			first, frame := child.ExitInfo()
			w["panic"], w["frame"], w["stderr"] = first, frame, child.Stderr()
			r.Violation(name+"|panic:"+c08Sig(frame)+"|"+v.class, v.class, w)
		} else if ke.NumConns() == before {
			r.Inconclusive(name + ": no key exchange reached the scripted server for " + v.class)
			continue
		} else {
			w["goroutines"] = child.Dump()
			r.Violation(name+"|hang|"+v.class, v.class, w)
		}
		skip[v.class] = true
		child.Kill()
		if child, err = startChildLeg("race", "c08client", args...); err != nil {
			return
		}
	}
	r.Class("endpoint:" + name)
}
