package monitors

import (
	"context"
	"github.com/scionproto/scion/pkg/slayers"
	"log/slog"
	"math/rand/v2"
	"net"
	"net/netip"
	"time"

	"github.com/scionproto/scion/pkg/addr"
	"github.com/scionproto/scion/pkg/segment/iface"
	"github.com/scionproto/scion/pkg/snet"
	snetpath "github.com/scionproto/scion/pkg/snet/path"

	"example.com/scion-time/core/client"
	"example.com/scion-time/net/udp"

	"verif/harness/internal/ev"
	"verif/harness/internal/peer"
)

var (
	c05LIA, _ = addr.ParseIA("1-ff00:0:110")
	c05RIA, _ = addr.ParseIA("2-ff00:0:220")
	c05XIA, _ = addr.ParseIA("3-ff00:0:330")
)

// handPath builds an snet path over a hand-made SCION dataplane path whose next hop is the
// given underlay address; interface ids make the fingerprint distinct per idx.
func handPath(rng *rand.Rand, src, dst addr.IA, nextHop netip.AddrPort, idx int) snet.Path {
	d := peer.SCIONPath(rng, 2+rng.IntN(2), 1+rng.IntN(3))
	d.PathMeta.CurrINF, d.PathMeta.CurrHF = 0, 0
	dp, err := snetpath.NewSCIONFromDecoded(*d)
	if err != nil {
		panic(err)
	}
	return snetpath.Path{Src: src, Dst: dst, DataplanePath: dp, NextHop: net.UDPAddrFromAddrPort(nextHop),
		Meta: snet.PathMetadata{Interfaces: []snet.PathInterface{{IA: src, ID: iface.ID(1000 + idx)}, {IA: dst, ID: iface.ID(2000 + idx)}}}}
}

// v6Ending returns fd00::a.b.c.d for the IPv4 address a.b.c.d.
func v6Ending(a netip.Addr) netip.Addr {
	b := [16]byte{0: 0xfd}
	v4 := a.As4()
	copy(b[12:], v4[:])
	return netip.AddrFrom16(b)
}

func c05SCION(r *ev.Run, rng *rand.Rand, nScripts int) {
	log := slog.New(slog.DiscardHandler)
	srvIP, cliIP, otherIP := blockIP(r, 5, 11), blockIP(r, 5, 12), blockIP(r, 5, 13)
	for mode := 0; mode < 4; mode++ {
		// mode 2: a client in interleaved mode that is new for every call, so that its first request
		// of the call is a basic-mode request (no previous exchange to refer to)
		// mode 3: one client in interleaved mode asked to measure against two server addresses in
		// turn: every first request of a call is a basic-mode request although a previous
		// exchange (with the other address) is on record
		inter, fresh, alt := mode > 0, mode == 2, mode == 3
		calls := 0
		p := &c05Peer{other: otherIP, rng: rng, issued: map[int]int{}, lastTx: map[netip.Addr]uint64{}, lastRx: map[netip.Addr]uint64{}}
		var last *peer.ParsedSCION
		p.unwrap = func(b []byte) ([]byte, bool) {
			ps, err := peer.ParseSCION(b)
			if err != nil || !ps.HasUDP {
				return nil, false
			}
			last = ps
			return ps.UDP.Payload, true
		}
		p.wrap = func(payload []byte, rq *c05Req, m *c05Mut) []byte {
			pkt := &peer.SCIONPkt{SrcIA: last.SCION.DstIA, DstIA: last.SCION.SrcIA, SrcHost: srvIP, DstHost: cliIP,
				SrcPort: last.UDP.DstPort, DstPort: last.UDP.SrcPort, Payload: payload, FlowID: 7}
			if rev, err := last.SCION.Path.Reverse(); err == nil {
				pkt.Path = rev
			}
			if m != nil {
				switch m.name {
				case "scion: source ISD-AS differs":
					pkt.SrcIA = c05XIA
				case "scion: source host differs":
					pkt.SrcHost = otherIP
				case "scion: destination ISD-AS differs":
					pkt.DstIA = c05XIA
				case "scion: destination host differs":
					pkt.DstHost = otherIP
				case "scion: source host is an IPv6 address ending in the server's IPv4 address":
					pkt.SrcHost = v6Ending(srvIP)
				case "scion: destination host is an IPv6 address ending in the client's IPv4 address":
					pkt.DstHost = v6Ending(cliIP)
				case "scion: source host is the IPv4-mapped form of another host":
					pkt.SrcHost = netip.AddrFrom16(otherIP.As16())
				case "scion: source host is a service address with the bytes of the server's IP address":
					t, a := slayers.AddrType(slayers.T4Svc), srvIP.As4()
					pkt.RawSrcType, pkt.RawSrc = &t, a[:]
				case "scion: destination host is a service address with the bytes of the client's IP address":
					t, a := slayers.AddrType(slayers.T4Svc), cliIP.As4()
					pkt.RawDstType, pkt.RawDst = &t, a[:]
				case "scion: UDP source port is not the port that was queried":
					pkt.SrcPort ^= 0x5555
				case "scion: UDP destination port is not the client's port":
					pkt.DstPort ^= 0x2aaa
				case "scion: source and destination exchanged":
					pkt.SrcIA, pkt.DstIA, pkt.SrcHost, pkt.DstHost = pkt.DstIA, pkt.SrcIA, pkt.DstHost, pkt.SrcHost
				}
			}
			b, err := pkt.Serialize()
			if err != nil {
				return nil
			}
			return b
		}
		s, err := peer.NewNTPServer(netip.AddrPortFrom(srvIP, 0), p.handle)
		if err != nil {
			r.Inconclusive("bind: " + err.Error())
			return
		}
		p.srv = s
		c := &client.SCIONClient{Log: log, InterleavedMode: inter}
		name := "scion-client"
		c05Spy = nil
		if inter {
			name = "scion-client(interleaved)"
			c05Spy = &c03Spy{}
			c.Filter = c05Spy
		}
		if fresh {
			name = "scion-client(interleaved,new client per call)"
		}
		if alt {
			name = "scion-client(interleaved,two servers in turn)"
		}
		pth := handPath(rng, c05LIA, c05RIA, s.Addr, 0)
		muts := c05HeaderMuts(rng, false)
		var keep []c05Mut
		for _, m := range muts {
			if !m.fromOther { // the underlay source is the previous hop, not the server: not part of the statement over SCION
				keep = append(keep, m)
			}
		}
		for _, n := range []string{"scion: source ISD-AS differs", "scion: source host differs", "scion: destination ISD-AS differs", "scion: destination host differs", "scion: source and destination exchanged",
			"scion: source host is an IPv6 address ending in the server's IPv4 address", "scion: destination host is an IPv6 address ending in the client's IPv4 address",
			"scion: source host is the IPv4-mapped form of another host",
			"scion: source host is a service address with the bytes of the server's IP address",
			"scion: destination host is a service address with the bytes of the client's IP address",
			"scion: UDP source port is not the port that was queried", "scion: UDP destination port is not the client's port"} {
			keep = append(keep, c05Mut{name: n, forceBad: true})
		}
		c05Leg(r, name, p, keep, func(ctx context.Context) (time.Time, time.Duration, error) {
			la := udp.UDPAddr{IA: c05LIA, Host: &net.UDPAddr{IP: cliIP.AsSlice()}}
			ra := udp.UDPAddr{IA: c05RIA, Host: &net.UDPAddr{IP: srvIP.AsSlice(), Port: 10123}}
			cc := c
			if fresh {
				cc = &client.SCIONClient{Log: log, InterleavedMode: true, Filter: c05Spy}
			}
			calls++
			if alt && calls%2 == 0 {
				ra.Host.Port = 10124
			}
			defer scionQuiesce()
			return client.MeasureClockOffsetSCION(ctx, log, []*client.SCIONClient{cc}, la, ra, []snet.Path{pth})
		}, rng, map[bool]int{false: nScripts / 2, true: nScripts / 6}[fresh || alt])
		s.Close()
	}
	_ = time.Second
}
