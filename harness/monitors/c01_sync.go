package monitors

import (
	"context"
	"errors"
	"fmt"
	"log/slog"
	"math"
	"math/big"
	"math/rand/v2"
	"runtime"
	"slices"
	"strings"
	"sync"
	"testing/synctest"
	"time"

	"github.com/prometheus/client_golang/prometheus"

	"example.com/scion-time/core/client"
	scsync "example.com/scion-time/core/sync"
	"example.com/scion-time/driver/clocks"

	"verif/harness/internal/ev"
)

// C01 — per-round clock correction is bounded whatever the sources report.
// sync.Run runs inside a testing/synctest bubble with a scripted system clock, a recording
// adjustment and scripted reference clocks / peers; all timing is virtual.

type nopRegisterer struct{}

func (nopRegisterer) Register(prometheus.Collector) error  { return nil }
func (nopRegisterer) MustRegister(...prometheus.Collector) {}
func (nopRegisterer) Unregister(prometheus.Collector) bool { return true }

type c01Behave struct {
	Off   int64 `json:"offset_ns"`
	Delay int64 `json:"delay_ns"`
	Kind  int   `json:"kind"` // 0 ok, 1 error, 2 blocks until cancelled, 3 ignores cancellation (returns at delay)
}

type c01Scenario struct {
	RefImpact   float64       `json:"-"` // (NaN and Inf have no JSON form: see RefImpactJ)
	RefImpactJ  string        `json:"ref_impact"`
	PeerImpactJ string        `json:"peer_impact"`
	PeerImpact  float64       `json:"-"`
	Cutoff      int64         `json:"cutoff_ns"`
	Timeout     int64         `json:"timeout_ns"`
	Interval    int64         `json:"interval_ns"`
	DriftOfI    int64         `json:"drift_of_interval_ns"`
	Rounds      int           `json:"rounds"`
	Refs        [][]c01Behave `json:"ref_clocks"` // [clock][round]
	Peers       [][]c01Behave `json:"peers"`
	Bad         string        `json:"inadmissible,omitempty"`
	// > 0: the clock's drift allowance is the real clocks.SystemClock's, configured with this
	// drift per second; DriftOfI is then the independently computed drift x interval
	DriftPerSec int64 `json:"system_clock_drift_ns_per_s,omitempty"`
}

type c01Event struct {
	Kind string `json:"kind"` // do | sleep | measure
	At   int64  `json:"at_ns"`
	Val  int64  `json:"value_ns"`
}

type c01Clock struct {
	real   *clocks.SystemClock
	sc     *c01Scenario
	mu     *sync.Mutex
	events *[]c01Event
	start  time.Time
	sleeps int
}

func (c *c01Clock) Epoch() uint64                                    { return 0 }
func (c *c01Clock) Now() time.Time                                   { return time.Now() }
func (c *c01Clock) Step(offset time.Duration)                        {}
func (c *c01Clock) Adjust(offset, duration time.Duration, f float64) {}
func (c *c01Clock) Drift(d time.Duration) time.Duration {
	if c.real != nil && int64(d) == c.sc.Interval {
		got := int64(c.real.Drift(d))
		c.mu.Lock()
		*c.events = append(*c.events, c01Event{"drift", int64(time.Since(c.start)), got})
		c.mu.Unlock()
		if diff := got - c.sc.DriftOfI; diff > 1 || diff < -1 {
			return time.Duration(got) // judged as a violation; the round structure is not
		}
		return time.Duration(c.sc.DriftOfI)
	}
	if int64(d) == c.sc.Interval {
		return time.Duration(c.sc.DriftOfI)
	}
	return time.Duration(new(big.Int).Div(new(big.Int).Mul(big.NewInt(int64(d)), big.NewInt(c.sc.DriftOfI)), big.NewInt(max(c.sc.Interval, 1))).Int64())
}
func (c *c01Clock) Sleep(d time.Duration) {
	c.mu.Lock()
	*c.events = append(*c.events, c01Event{"sleep", int64(time.Since(c.start)), int64(d)})
	c.sleeps++
	done := c.sleeps >= c.sc.Rounds
	c.mu.Unlock()
	if done {
		runtime.Goexit()
	}
	time.Sleep(d)
}

type c01Adj struct {
	mu     *sync.Mutex
	events *[]c01Event
	start  time.Time
}

func (a *c01Adj) Do(offset time.Duration) {
	a.mu.Lock()
	*a.events = append(*a.events, c01Event{"do", int64(time.Since(a.start)), int64(offset)})
	a.mu.Unlock()
}

type c01Src struct {
	script []c01Behave
	mu     *sync.Mutex
	events *[]c01Event
	start  time.Time
	calls  int
}

var errC01 = errors.New("scripted source error")

func (s *c01Src) MeasureClockOffset(ctx context.Context) (time.Time, time.Duration, error) {
	s.mu.Lock()
	i := s.calls
	s.calls++
	*s.events = append(*s.events, c01Event{"measure", int64(time.Since(s.start)), int64(i)})
	s.mu.Unlock()
	if i >= len(s.script) {
		return time.Time{}, 0, errC01
	}
	b := s.script[i]
	switch b.Kind {
	case 2:
		<-ctx.Done()
		return time.Time{}, 0, ctx.Err()
	case 3:
		time.Sleep(time.Duration(b.Delay))
		return time.Now(), time.Duration(b.Off), nil
	}
	tm := time.NewTimer(time.Duration(b.Delay))
	select {
	case <-tm.C:
	case <-ctx.Done():
		tm.Stop()
		return time.Time{}, 0, ctx.Err()
	}
	if b.Kind == 1 {
		return time.Time{}, 0, errC01
	}
	return time.Now(), time.Duration(b.Off), nil
}

func c01RunOne(sc *c01Scenario) (events []c01Event, panicked string, bubble string) {
	var mu sync.Mutex
	var evs []c01Event
	var pnc string
	defer func() {
		if p := recover(); p != nil {
			bubble = fmt.Sprint(p)
		}
		mu.Lock()
		events, panicked = evs, pnc
		mu.Unlock()
	}()
	synctest.Run(func() {
		start := time.Now()
		clk := &c01Clock{sc: sc, mu: &mu, events: &evs, start: start}
		if sc.DriftPerSec > 0 {
			clk.real = clocks.NewSystemClock(slog.New(slog.DiscardHandler), time.Duration(sc.DriftPerSec))
		}
		adj := &c01Adj{mu: &mu, events: &evs, start: start}
		mk := func(scripts [][]c01Behave) []client.ReferenceClock {
			var out []client.ReferenceClock
			for _, s := range scripts {
				out = append(out, &c01Src{script: s, mu: &mu, events: &evs, start: start})
			}
			return out
		}
		refs, peers := mk(sc.Refs), mk(sc.Peers)
		done := make(chan struct{})
		go func() {
			defer close(done)
			defer func() {
				if p := recover(); p != nil {
					mu.Lock()
					pnc = fmt.Sprint(p)
					mu.Unlock()
				}
			}()
			scsync.Run(slog.New(slog.DiscardHandler), scsync.Config{
				ReferenceClockImpact: sc.RefImpact,
				PeerClockImpact:      sc.PeerImpact,
				PeerClockCutoff:      time.Duration(sc.Cutoff),
				SyncTimeout:          time.Duration(sc.Timeout),
				SyncInterval:         time.Duration(sc.Interval),
			}, clk, adj, refs, peers)
		}()
		<-done
	})
	return
}

func clampF(v int64, maxCorr float64) int64 {
	if math.Abs(float64(v)) > maxCorr {
		if v < 0 {
			return int64(-maxCorr)
		}
		return int64(maxCorr)
	}
	return v
}

// ftmBounds returns [s[f], s[n-1-f]] for the multiset vals.
func ftmBounds(vals []int64) (int64, int64) {
	s := slices.Clone(vals)
	slices.Sort(s)
	f := (len(s) - 1) / 3
	return s[f], s[len(s)-1-f]
}

func midI(x, y int64) int64 { // exact midpoint, truncated toward x (as x+(y-x)/2 does)
	d := new(big.Int).Sub(big.NewInt(y), big.NewInt(x))
	d.Quo(d, big.NewInt(2))
	return new(big.Int).Add(big.NewInt(x), d).Int64()
}

func c01Check(r *ev.Run, id string, sc *c01Scenario) {
	evs, pnc, bubble := c01RunOne(sc)
	r.Eval(1)
	w := func(extra map[string]any) map[string]any {
		m := map[string]any{"scenario": sc, "events": evs, "panic": pnc}
		if len(evs) > 200 {
			m["events"] = evs[:200]
		}
		for k, v := range extra {
			m[k] = v
		}
		return m
	}
	if bubble != "" {
		r.Violation("sync.Run|state:bubble did not end: "+firstWord(bubble), id, w(map[string]any{"bubble": bubble}))
		return
	}
	if sc.Bad != "" {
		r.Class("inadmissible:" + sc.Bad)
		if pnc == "" {
			r.Violation("sync.Run|wrong-value:inadmissible configuration accepted|"+sc.Bad, id, w(nil))
		}
		for _, e := range evs {
			if e.Kind == "measure" || e.Kind == "do" {
				r.Violation("sync.Run|wrong-value:inadmissible configuration measured or corrected before being refused|"+sc.Bad, id, w(nil))
				break
			}
		}
		return
	}
	if sc.DriftPerSec > 0 {
		seen := false
		for _, e := range evs {
			if e.Kind != "drift" {
				continue
			}
			seen = true
			if diff := e.Val - sc.DriftOfI; diff > 1 || diff < -1 {
				r.Violation("sync.Run|wrong-value:the system clock's drift allowance, from which both bounds are taken, is not configured drift x sync interval", id,
					w(map[string]any{"drift_of_interval_from_clock": e.Val, "configured_drift_x_interval": sc.DriftOfI}))
				return
			}
		}
		if seen {
			r.Class("bounds from the real clocks.SystemClock drift allowance" + map[bool]string{true: " (sub-second interval)", false: ""}[sc.Interval < 1e9])
		}
	}
	if pnc != "" && sc.DriftPerSec > 0 && sc.DriftOfI == 0 {
		// an allowance of zero leaves no room for any correction: refusing to start is a way to honour the bound
		for _, e := range evs {
			if e.Kind == "do" {
				r.Violation("sync.Run|wrong-value:correction handed over although the drift allowance is zero", id, w(nil))
				return
			}
		}
		r.Class("refused: drift allowance of the real system clock below 1 ns")
		return
	}
	if pnc != "" {
		r.Violation("sync.Run|panic|admissible configuration", id, w(nil))
		return
	}
	refMax := sc.RefImpact * float64(sc.DriftOfI)
	peerMax := sc.PeerImpact * float64(sc.DriftOfI)
	bound := 0.0
	if len(sc.Refs) > 0 {
		bound = refMax
	}
	if len(sc.Peers) > 0 {
		bound = peerMax
	}
	// (1) exactly one Do per round, each followed by Sleep(SyncInterval)
	round := 0
	var roundStart int64
	expectDo := true
	for _, e := range evs {
		switch e.Kind {
		case "do":
			if !expectDo {
				r.Violation("sync.Run|wrong-value:more than one correction in a round", id, w(map[string]any{"round": round}))
				return
			}
			expectDo = false
			// (2) no later than round start + timeout
			if e.At-roundStart > sc.Timeout {
				r.Violation("sync.Run|wrong-value:correction later than the round's timeout", id, w(map[string]any{"round": round, "at": e.At, "round_start": roundStart}))
			}
			// (3) magnitude
			if math.Abs(float64(e.Val)) > bound {
				side := "peer bound"
				if len(sc.Peers) == 0 {
					side = "reference-clock bound"
				}
				if len(sc.Peers) == 0 && len(sc.Refs) == 0 {
					side = "no sources"
				}
				r.Violation("sync.Run|wrong-value:correction exceeds impact x drift x interval|"+side, id, w(map[string]any{"round": round, "corr": e.Val, "bound": bound}))
			}
			c01Structure(r, id, sc, round, e.Val, refMax, peerMax, w)
		case "sleep":
			if expectDo {
				r.Violation("sync.Run|wrong-value:round without a correction", id, w(map[string]any{"round": round}))
				return
			}
			if e.Val != sc.Interval {
				r.Violation("sync.Run|wrong-value:sleep is not the sync interval", id, w(map[string]any{"round": round, "slept": e.Val}))
			}
			expectDo = true
			round++
			roundStart = e.At + sc.Interval
		}
	}
	if round != sc.Rounds {
		r.Violation("sync.Run|wrong-value:unexpected number of rounds", id, w(map[string]any{"rounds_seen": round}))
	}
	r.Distinct(fmt.Sprint(*sc))
}

// firstWord turns an error text into a stable signature fragment: digits and quoted
// names removed, cut to 48 characters.
func firstWord(s string) string {
	var b []rune
	inq := false
	for _, c := range s {
		switch {
		case c == '"':
			inq = !inq
		case inq, c >= '0' && c <= '9':
		default:
			b = append(b, c)
		}
	}
	s = strings.Join(strings.Fields(string(b)), " ")
	if len(s) > 48 {
		s = s[:48]
	}
	return s
}

// c01Structure checks the composition clause in rounds where it is determined by the
// round's own measurements: every source of a side answered successfully before the
// timeout (so no slot of the result slice carries a value of an earlier round).
func c01Structure(r *ev.Run, id string, sc *c01Scenario, round int, corr int64, refMax, peerMax float64, w func(map[string]any) map[string]any) {
	// the values of a round are those of the sources that answered successfully before the timeout in
	// that round; a source that fails, is late or never answers contributes nothing (what it reported in
	// earlier rounds is not a measurement of this round), and with no answer at all the side's offset is 0
	partial := false
	side := func(scripts [][]c01Behave) (vals []int64, determined bool) {
		determined = true
		for _, s := range scripts {
			if round >= len(s) {
				partial = true
				continue
			}
			b := s[round]
			switch {
			case !(b.Kind == 0 || b.Kind == 3) || b.Delay > sc.Timeout:
				partial = true
				continue
			case b.Delay == sc.Timeout: // a tie with the deadline can go either way
				return nil, false
			}
			vals = append(vals, b.Off)
		}
		// answers anywhere in the int64 range, also more than 2^63 ns apart: the side's offset lies between
		// the order statistics its fault-tolerant midpoint is taken from (C01 quantifies over the whole range)
		if len(scripts) > 0 && len(vals) == 0 {
			vals = []int64{0}
		}
		return vals, determined
	}
	rv, rdet := side(sc.Refs)
	pv, pdet := side(sc.Peers)
	if !rdet || !pdet {
		r.Class("round:bounds-only(answer exactly at the deadline)")
		return
	}
	if partial {
		r.Class("round:some sources failed, were late or silent: judged on the answers of this round only")
	}
	var rlo, rhi int64
	refOk := len(rv) > 0
	if refOk {
		rlo, rhi = ftmBounds(rv)
		rlo, rhi = clampF(rlo, refMax), clampF(rhi, refMax)
	}
	peerState := 0 // 0 no contribution, 1 contributes, -1 ambiguous
	var plo, phi int64
	if len(pv) > 0 {
		a0, b0 := ftmBounds(pv)
		a1, b1 := ftmBounds(append(slices.Clone(pv), 0))
		plo, phi = min(a0, a1), max(b0, b1)
		switch {
		case plo > sc.Cutoff || phi < -sc.Cutoff:
			peerState = 1
		case plo >= -sc.Cutoff && phi <= sc.Cutoff:
			peerState = 0
		default:
			peerState = -1
		}
		plo, phi = clampF(plo, peerMax), clampF(phi, peerMax)
	}
	if peerState == -1 {
		r.Class("round:bounds-only(peer offset straddles the cutoff)")
		return
	}
	var lo, hi int64
	cls := ""
	switch {
	case refOk && peerState == 1:
		lo, hi = midI(rlo, plo), midI(rhi, phi)
		cls = "round:midpoint(ref,peer)"
	case refOk:
		lo, hi = rlo, rhi
		cls = "round:ref-only"
		if len(pv) > 0 {
			cls = "round:ref-only(peer within cutoff)"
		}
	case peerState == 1:
		lo, hi = plo, phi
		cls = "round:peer-only"
	default:
		lo, hi = 0, 0
		cls = "round:no-contribution"
	}
	if refOk && (math.Abs(float64(rv[0])) > refMax) {
		cls += ",ref-clamped"
	}
	if peerState == 1 && (float64(plo) >= peerMax-1 || float64(phi) <= -peerMax+1) {
		cls += ",peer-clamped"
	}
	r.Class(cls)
	// the code compares and clamps in float64 (as the property's bound is a float product): above
	// 2^53 ns the clamped and the unclamped value are distinguishable only up to one float64 step
	tol := func(v int64) int64 {
		a := math.Abs(float64(v))
		return 1 + int64(math.Nextafter(a, math.Inf(1))-a)
	}
	if corr < lo-tol(lo) || corr > hi+tol(hi) {
		r.Violation("sync.Run|wrong-value:correction is not the stated combination of the bounded contributions|"+cls, id,
			w(map[string]any{"round": round, "corr": corr, "expected_lo": lo, "expected_hi": hi}))
	}
}

func c01Gen(rng *rand.Rand, bad int) *c01Scenario {
	sc := &c01Scenario{}
	sc.RefImpact = []float64{1.000000001, 1.25, 2, 10, 1e6}[rng.IntN(5)]
	sc.PeerImpact = sc.RefImpact + 1 + []float64{1e-6, 0.25, 1, 10, 1e6}[rng.IntN(5)]
	sc.Cutoff = []int64{0, 50000, 1e9, rng.Int64N(1e7)}[rng.IntN(4)]
	sc.Interval = []int64{1e6, 1e9, 64e9, 3600e9, 1 + rng.Int64N(1e10)}[rng.IntN(5)]
	sc.Timeout = []int64{0, sc.Interval / 2, rng.Int64N(sc.Interval/2 + 1), sc.Interval / 2}[rng.IntN(4)]
	// drift of one interval: >= 1 ns, factor*D < 2^61
	maxD := int64(float64(int64(1)<<61) / sc.PeerImpact)
	sc.DriftOfI = 1 + rng.Int64N(min(maxD, []int64{10, 1e3, 1e6, 1e9, maxD}[rng.IntN(5)]))
	sc.Rounds = 3 + rng.IntN(12)
	huge := bad == 0 && rng.IntN(8) == 0
	if huge {
		// caps of 2^62 ns and more: each bounded contribution fits into int64, their difference does not
		sc.RefImpact = []float64{2, 10, 1e6, 4.5e15}[rng.IntN(4)]
		sc.PeerImpact = sc.RefImpact + 1 + []float64{1e-6, 0.25, 1}[rng.IntN(3)]
		if sc.RefImpact > 1e15 {
			sc.PeerImpact = sc.RefImpact + 5e14
		}
		cap := float64(int64(1)<<62) * (1 + 0.95*rng.Float64())
		sc.DriftOfI = max(1, int64(cap/sc.PeerImpact))
	} else if bad == 0 && rng.IntN(4) == 0 {
		// drift allowance of the real system clock: configured drift per second x interval,
		// chosen so that the product is a whole number of nanoseconds >= 10
		sc.DriftPerSec = []int64{1000, 20000, 100000, 1000000, 1000 * (1 + rng.Int64N(500))}[rng.IntN(5)]
		sc.Interval = []int64{1e7, 1e8, 25e7, 5e8, 75e7, 1e9, 15e8, 2e9, 64e9, 1e7 * (1 + rng.Int64N(300))}[rng.IntN(10)]
		sc.Timeout = []int64{0, sc.Interval / 2, rng.Int64N(sc.Interval/2 + 1)}[rng.IntN(3)]
		if rng.IntN(6) == 0 { // drift x interval below 1 ns: the allowance is zero, never "unknown"
			sc.DriftPerSec = []int64{1, 10, 100}[rng.IntN(3)]
			sc.Interval = []int64{1e6, 5e6, 9e6}[rng.IntN(3)]
			sc.Timeout = 0
		}
		sc.DriftOfI = new(big.Int).Div(new(big.Int).Mul(big.NewInt(sc.DriftPerSec), big.NewInt(sc.Interval)), big.NewInt(1e9)).Int64()
	}
	switch bad {
	case 1:
		sc.RefImpact = []float64{1, 0.5, 0, -3, math.NaN(), math.Inf(1), math.Inf(-1)}[rng.IntN(7)]
		sc.Bad = "reference factor <= 1"
		if math.IsNaN(sc.RefImpact) || math.IsInf(sc.RefImpact, 0) {
			sc.Bad = "reference factor is not a number above 1"
		}
	case 2:
		sc.PeerImpact = []float64{1, 0.99, 0, -1, math.NaN(), math.Inf(1)}[rng.IntN(6)]
		sc.RefImpact = 1.25
		sc.Bad = "peer factor <= 1"
		if math.IsNaN(sc.PeerImpact) || math.IsInf(sc.PeerImpact, 0) {
			sc.Bad = "peer factor is not a number above 1"
		}
	case 3:
		sc.PeerImpact = sc.RefImpact + []float64{1, 0.5, 0, -0.5}[rng.IntN(4)]
		sc.Bad = "peer factor does not exceed reference factor by more than 1"
	case 4:
		sc.Interval = []int64{0, -1, -1e9}[rng.IntN(3)]
		sc.Timeout = 0
		sc.Bad = "non-positive interval"
	case 5:
		sc.Timeout = []int64{sc.Interval/2 + 1, sc.Interval/2 + 1 + rng.Int64N(sc.Interval), sc.Interval, 1 << 62, 1<<62 + rng.Int64N(1<<61), 5e18, math.MaxInt64}[rng.IntN(7)]
		sc.Bad = "timeout above half the interval"
	}
	refMax := int64(sc.RefImpact * float64(sc.DriftOfI))
	peerMax := int64(sc.PeerImpact * float64(sc.DriftOfI))
	if refMax < 1 {
		refMax = 1
	}
	if peerMax < 1 {
		peerMax = 1
	}
	pool := []int64{0, 1, -1, sc.Cutoff, sc.Cutoff + 1, -sc.Cutoff, -sc.Cutoff - 1, sc.Cutoff - 1, refMax, refMax + 1, refMax - 1, -refMax, -refMax - 1,
		peerMax, peerMax + 1, peerMax - 1, -peerMax - 1, -peerMax, 1 << 31, -(1 << 31), 1<<62 - 1, -(1<<62 - 1), math.MinInt64, math.MaxInt64, 2 * peerMax, -2 * peerMax}
	val := func() int64 {
		switch rng.IntN(4) {
		case 0:
			return pool[rng.IntN(len(pool))]
		case 1:
			if peerMax >= 1<<60 {
				return int64(rng.Uint64())
			}
			return rng.Int64N(4*peerMax+2) - 2*peerMax - 1
		case 2:
			return int64(rng.Uint64())
		default:
			return rng.Int64N(2001) - 1000
		}
	}
	mode := rng.IntN(4)
	if huge && rng.IntN(2) == 0 {
		mode = 0
	}
	// 0 all healthy identical per side, 1 healthy varied, 2 faulty mix, 3 good rounds then all-fail rounds
	mkSide := func(n int) [][]c01Behave {
		out := make([][]c01Behave, n)
		common := make([]int64, sc.Rounds)
		for i := range common {
			common[i] = val()
		}
		for c := 0; c < n; c++ {
			out[c] = make([]c01Behave, sc.Rounds)
			for rd := 0; rd < sc.Rounds; rd++ {
				b := c01Behave{Off: val()}
				if sc.Timeout > 0 {
					b.Delay = rng.Int64N(sc.Timeout)
				}
				switch mode {
				case 0:
					b.Off = common[rd]
				case 1:
				case 2:
					switch rng.IntN(8) {
					case 0:
						b.Kind = 1
					case 1:
						b.Kind = 2
					case 2: // late by 1 ns, ignoring cancellation
						b.Kind, b.Delay = 3, sc.Timeout+1
					case 3: // exactly at the deadline
						b.Delay = sc.Timeout
					case 4: // very late
						b.Kind, b.Delay = 3, sc.Timeout+sc.Interval/3+1
					}
				case 3:
					if rd >= sc.Rounds/2 {
						b.Kind = 1 + rng.IntN(2)
					}
				}
				out[c][rd] = b
			}
		}
		return out
	}
	nr, np := rng.IntN(10), rng.IntN(10)
	switch rng.IntN(6) {
	case 0:
		nr = 0
	case 1:
		np = 0
	case 2:
		nr, np = 1+rng.IntN(2), 3+rng.IntN(4)
	}
	sc.Refs, sc.Peers = mkSide(nr), mkSide(np)
	sc.RefImpactJ, sc.PeerImpactJ = fmt.Sprint(sc.RefImpact), fmt.Sprint(sc.PeerImpact)
	return sc
}

func init() {
	register("C01", "exploration", func(r *ev.Run) {
		prometheus.DefaultRegisterer = nopRegisterer{}
		n := r.Pick(1500, 60000)
		parallel(n, func(w, i int) {
			id := fmt.Sprintf("s%d", i)
			if r.Only() != "" && r.Only() != id {
				return
			}
			rng := r.Rng("c01/" + id)
			bad := 0
			if i%10 == 9 {
				bad = 1 + (i/10)%5
			}
			sc := c01Gen(rng, bad)
			c01Check(r, id, sc)
			if i < 2 || i == 9 {
				evs, _, _ := c01RunOne(sc)
				if len(evs) > 12 {
					evs = evs[:12]
				}
				r.Sample(map[string]any{"case": id, "scenario": sc, "first_events": evs})
			}
		})
		r.Assume("correction caps (RefImpact*Drift and PeerImpact*Drift) below 2^63 ns; a side's offset is judged to lie between the order statistics its fault-tolerant midpoint is taken from, over the whole int64 range")
		r.Assume("virtual time of testing/synctest; prometheus registration replaced by a no-op registerer so that Run can be started many times in one process")
		if r.Only() == "" || r.Only() == "main:c01wiring" {
			runMainLeg(r, "c01wiring")
		}
		r.Finish("seeded configurations (impact factors {1+1e-9,1.25,2,10,1e6} and peer = ref+1+{1e-6..1e6}, cutoff {0,50us,1s,random}, interval 1ms..1h, timeout {0,I/2,random}, drift of one interval 1 ns..2^61/factor, one scenario in eight with caps between 2^62 and 2^63 ns) x 0..9 reference clocks x 0..9 peers x 3..14 rounds; "+
			"offsets from a boundary pool (0,+-1,+-cutoff+-1,+-maxCorr+-1,+-2^31,+-(2^62-1),MinInt64,MaxInt64) and uniform; per-source-per-round behaviours ok / error / blocked until cancelled / late by 1 ns / exactly at the deadline / very late, and all-fail rounds after good rounds; "+
			"every 10th scenario is one of the five inadmissible configuration classes. Oracle on the recorded Do/Sleep/measure events with virtual timestamps: (Do Sleep(interval))* exactly, Do within the timeout of the round start, |corr| <= factor x Drift(interval), "+
			"and in determined rounds corr within the interval implied by clamp/cutoff/midpoint over the FTM bounds of the round's offsets (+-1 ns); inadmissible configurations must panic before any measurement. distinct_nontrivial = distinct admissible scenarios", 8)
	})
}
