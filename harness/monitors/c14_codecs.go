package monitors

import (
	"bufio"
	"bytes"
	"context"
	"encoding/binary"
	"fmt"
	"io"
	"log/slog"
	"math/rand/v2"
	"sort"
	"strings"
	"sync/atomic"
	"testing/iotest"

	"example.com/scion-time/net/csptp"
	"example.com/scion-time/net/ntp"
	"example.com/scion-time/net/nts"
	"example.com/scion-time/net/ntske"

	"verif/harness/internal/ev"
)

// C14 — wire codecs are exact inverses and preserve field kinds.
//
// The monitor drives the exported encode/decode functions of net/ntp,
// net/csptp, net/nts and net/ntske on generated values and byte strings.  The
// oracle is the property text only: decode(encode(v)) == v, encode(decode(b))
// == b for NTP/CSPTP headers, accessors == bit fields of byte 0, NTS extension
// fields keep their kind and are 4-byte aligned, cookies and NTS-KE records
// round-trip, and an NTS-KE stream decodes to the same Data however the
// transport segments it.

func c14Try(f func()) (p any) {
	defer func() { p = recover() }()
	f()
	return nil
}

// c14Panic normalises a recovered value into a stable string (no numbers).
func c14Panic(p any) string {
	s := fmt.Sprint(p)
	if i := strings.IndexByte(s, '\n'); i >= 0 {
		s = s[:i]
	}
	if i := strings.Index(s, " ["); i >= 0 {
		s = s[:i]
	}
	var b strings.Builder
	for _, c := range s {
		if c >= '0' && c <= '9' {
			continue
		}
		b.WriteRune(c)
	}
	return strings.TrimSpace(b.String())
}

// ---------------------------------------------------------------------------
// generic field sweeps

type c14Field[T any] struct {
	name string
	bits int
	set  func(*T, uint64)
}

// c14Boundary returns boundary-dense values of a field of the given width.
func c14Boundary(bits int) []uint64 {
	mask := ^uint64(0)
	if bits < 64 {
		mask = 1<<uint(bits) - 1
	}
	m := map[uint64]struct{}{0: {}, mask: {}}
	for k := 0; k < bits; k++ {
		b := uint64(1) << uint(k)
		for _, v := range []uint64{b, b - 1, b + 1, ^b, ^(b - 1), b | b>>1, 0xaaaaaaaaaaaaaaaa >> uint(k), b * 0xff} {
			m[v&mask] = struct{}{}
		}
	}
	out := make([]uint64, 0, len(m))
	for v := range m {
		out = append(out, v)
	}
	sort.Slice(out, func(i, j int) bool { return out[i] < out[j] })
	return out
}

// c14RandBits returns a boundary-dense random value of the given width.
func c14RandBits(rng *rand.Rand, bits int) uint64 {
	mask := ^uint64(0)
	if bits < 64 {
		mask = 1<<uint(bits) - 1
	}
	switch rng.IntN(8) {
	case 0:
		return []uint64{0, 1, mask, mask - 1, mask >> 1, mask>>1 + 1}[rng.IntN(6)] & mask
	case 1:
		k := uint(rng.IntN(bits))
		return (uint64(1)<<k + uint64(rng.IntN(3)) - 1) & mask
	default:
		return rng.Uint64() & mask
	}
}

// ---------------------------------------------------------------------------
// NTP

var c14NTPFields = []c14Field[ntp.Packet]{
	{"LVM", 8, func(p *ntp.Packet, v uint64) { p.LVM = uint8(v) }},
	{"Stratum", 8, func(p *ntp.Packet, v uint64) { p.Stratum = uint8(v) }},
	{"Poll", 8, func(p *ntp.Packet, v uint64) { p.Poll = int8(v) }},
	{"Precision", 8, func(p *ntp.Packet, v uint64) { p.Precision = int8(v) }},
	{"RootDelay.Seconds", 16, func(p *ntp.Packet, v uint64) { p.RootDelay.Seconds = uint16(v) }},
	{"RootDelay.Fraction", 16, func(p *ntp.Packet, v uint64) { p.RootDelay.Fraction = uint16(v) }},
	{"RootDispersion.Seconds", 16, func(p *ntp.Packet, v uint64) { p.RootDispersion.Seconds = uint16(v) }},
	{"RootDispersion.Fraction", 16, func(p *ntp.Packet, v uint64) { p.RootDispersion.Fraction = uint16(v) }},
	{"ReferenceID", 32, func(p *ntp.Packet, v uint64) { p.ReferenceID = uint32(v) }},
	{"ReferenceTime.Seconds", 32, func(p *ntp.Packet, v uint64) { p.ReferenceTime.Seconds = uint32(v) }},
	{"ReferenceTime.Fraction", 32, func(p *ntp.Packet, v uint64) { p.ReferenceTime.Fraction = uint32(v) }},
	{"OriginTime.Seconds", 32, func(p *ntp.Packet, v uint64) { p.OriginTime.Seconds = uint32(v) }},
	{"OriginTime.Fraction", 32, func(p *ntp.Packet, v uint64) { p.OriginTime.Fraction = uint32(v) }},
	{"ReceiveTime.Seconds", 32, func(p *ntp.Packet, v uint64) { p.ReceiveTime.Seconds = uint32(v) }},
	{"ReceiveTime.Fraction", 32, func(p *ntp.Packet, v uint64) { p.ReceiveTime.Fraction = uint32(v) }},
	{"TransmitTime.Seconds", 32, func(p *ntp.Packet, v uint64) { p.TransmitTime.Seconds = uint32(v) }},
	{"TransmitTime.Fraction", 32, func(p *ntp.Packet, v uint64) { p.TransmitTime.Fraction = uint32(v) }},
}

func c14RandNTP(rng *rand.Rand) ntp.Packet {
	var p ntp.Packet
	for _, f := range c14NTPFields {
		f.set(&p, c14RandBits(rng, f.bits))
	}
	return p
}

// c14NTPBuf returns a destination buffer in one of the shapes the callers use.
func c14NTPBuf(variant int) []byte {
	switch variant % 4 {
	case 0:
		return nil // EncodePacket allocates
	case 1:
		return bytes.Repeat([]byte{0xa5}, 48)[:0] // cap 48, len 0, dirty
	case 2:
		return bytes.Repeat([]byte{0x5a}, 1024)[:300] // the listener's receive buffer, longer than a header
	default:
		return make([]byte, 48)
	}
}

func c14NTPValue(r *ev.Run, v ntp.Packet, variant int, id, class string) {
	var buf []byte
	var d ntp.Packet
	var err error
	p := c14Try(func() {
		buf = c14NTPBuf(variant)
		ntp.EncodePacket(&buf, &v)
		err = ntp.DecodePacket(&d, buf)
	})
	switch {
	case p != nil:
		r.Violation("ntp.EncodePacket/DecodePacket|panic:"+c14Panic(p)+"|"+class, id, map[string]any{"value": fmt.Sprintf("%+v", v), "panic": fmt.Sprint(p)})
	case len(buf) != ntp.PacketLen:
		r.Violation("ntp.EncodePacket|wrong-value:encoded length is not 48|"+class, id, map[string]any{"value": fmt.Sprintf("%+v", v), "len": len(buf)})
	case err != nil:
		r.Violation("ntp.DecodePacket|wrong-value:own encoding not decodable|"+class, id, map[string]any{"value": fmt.Sprintf("%+v", v), "bytes": ev.Hex(buf), "error": err.Error()})
	case d != v:
		r.Violation("ntp.EncodePacket/DecodePacket|wrong-value:decode(encode(v)) != v|"+class, id,
			map[string]any{"value": fmt.Sprintf("%+v", v), "bytes": ev.Hex(buf), "decoded": fmt.Sprintf("%+v", d)})
	case d.LeapIndicator() != buf[0]>>6 || d.Version() != buf[0]>>3&7 || d.Mode() != buf[0]&7:
		r.Violation("ntp.Packet accessors|wrong-value:leap/version/mode differ from the bit fields of byte 0|"+class, id,
			map[string]any{"byte0": buf[0], "leap": d.LeapIndicator(), "version": d.Version(), "mode": d.Mode()})
	}
}

func c14NTPBytes(r *ev.Run, b []byte, variant int, id, class string) {
	var d ntp.Packet
	var out []byte
	var err error
	p := c14Try(func() {
		err = ntp.DecodePacket(&d, b)
		out = c14NTPBuf(variant)
		ntp.EncodePacket(&out, &d)
	})
	switch {
	case p != nil:
		r.Violation("ntp.DecodePacket/EncodePacket|panic:"+c14Panic(p)+"|"+class, id, map[string]any{"bytes": ev.Hex(b), "panic": fmt.Sprint(p)})
	case err != nil:
		r.Violation("ntp.DecodePacket|wrong-value:48-byte string not decodable|"+class, id, map[string]any{"bytes": ev.Hex(b), "error": err.Error()})
	case !bytes.Equal(out, b[:48]):
		r.Violation("ntp.DecodePacket/EncodePacket|wrong-value:encode(decode(b)) != b|"+class, id, map[string]any{"bytes": ev.Hex(b[:48]), "reencoded": ev.Hex(out)})
	case d.LeapIndicator() != b[0]>>6 || d.Version() != b[0]>>3&7 || d.Mode() != b[0]&7:
		r.Violation("ntp.Packet accessors|wrong-value:leap/version/mode differ from the bit fields of byte 0|"+class, id,
			map[string]any{"byte0": b[0], "leap": d.LeapIndicator(), "version": d.Version(), "mode": d.Mode()})
	}
}

func c14NTP(r *ev.Run, want func(string) bool) {
	// accessors and setters against the bit fields of byte 0, all 256 values
	if want("ntp:lvm") {
		var n int64
		for b := 0; b < 256; b++ {
			raw := make([]byte, 48)
			raw[0] = byte(b)
			c14NTPBytes(r, raw, b, "ntp:lvm", "first byte sweep")
			n++
			type setter struct {
				name  string
				max   uint8
				shift uint
				mask  uint8
				set   func(*ntp.Packet, uint8)
			}
			for _, s := range []setter{
				{"SetLeapIndicator", 3, 6, 0x3f, func(p *ntp.Packet, v uint8) { p.SetLeapIndicator(v) }},
				{"SetVersion", 7, 3, 0xc7, func(p *ntp.Packet, v uint8) { p.SetVersion(v) }},
				{"SetMode", 7, 0, 0xf8, func(p *ntp.Packet, v uint8) { p.SetMode(v) }},
			} {
				for v := uint8(0); v <= s.max; v++ {
					pk := ntp.Packet{LVM: uint8(b)}
					n++
					if p := c14Try(func() { s.set(&pk, v) }); p != nil {
						r.Violation("ntp.Packet."+s.name+"|panic:"+c14Panic(p)+"|value in range", "ntp:lvm", map[string]any{"byte0": b, "value": v, "panic": fmt.Sprint(p)})
						continue
					}
					wantLVM := uint8(b)&s.mask | v<<s.shift
					if pk.LVM != wantLVM || pk.LeapIndicator() != wantLVM>>6 || pk.Version() != wantLVM>>3&7 || pk.Mode() != wantLVM&7 {
						r.Violation("ntp.Packet."+s.name+"|wrong-value:setter/accessors differ from the bit fields of byte 0|first byte sweep", "ntp:lvm",
							map[string]any{"byte0_before": b, "value": v, "byte0_after": pk.LVM, "expected": wantLVM,
								"leap": pk.LeapIndicator(), "version": pk.Version(), "mode": pk.Mode()})
					}
					var buf []byte
					ntp.EncodePacket(&buf, &pk)
					if buf[0] != wantLVM {
						r.Violation("ntp.EncodePacket|wrong-value:byte 0 differs from leap/version/mode|first byte sweep", "ntp:lvm", map[string]any{"lvm": pk.LVM, "byte0": buf[0]})
					}
				}
			}
		}
		r.Eval(n)
		r.DistinctN(n)
		r.Class("ntp:lvm-accessors-all-256")
		r.Class("ntp:lvm-setters-all-256")
	}
	// per-field sweeps: exhaustive for 8/16-bit fields, boundary-dense for 32-bit
	for _, f := range c14NTPFields {
		id := "ntp:field:" + f.name
		if !want(id) {
			continue
		}
		rng := r.Rng("c14/" + id)
		var vals []uint64
		if f.bits <= 16 {
			vals = make([]uint64, 1<<uint(f.bits))
			for i := range vals {
				vals[i] = uint64(i)
			}
			r.Class(fmt.Sprintf("ntp:field%d-exhaustive", f.bits))
		} else {
			vals = c14Boundary(f.bits)
			r.Class("ntp:field32-boundary")
		}
		base := c14RandNTP(rng)
		for i, v := range vals {
			if i%97 == 0 {
				base = c14RandNTP(rng)
			}
			p := base
			f.set(&p, v)
			c14NTPValue(r, p, i, id, "field sweep")
		}
		r.Eval(int64(len(vals)))
		r.DistinctN(int64(len(vals)))
	}
	// random values and random 48-byte strings
	const blk = 20000
	nblk := r.Pick(5, 500)
	var nv atomic.Int64
	parallel(nblk, func(w, b int) {
		id := fmt.Sprintf("ntp:rand:%d", b)
		if !want(id) {
			return
		}
		rng := r.Rng("c14/" + id)
		raw := make([]byte, 48+32)
		for i := 0; i < blk; i++ {
			c14NTPValue(r, c14RandNTP(rng), i, id, "random value")
			n := 48
			if i%8 == 0 {
				n += rng.IntN(33) // trailing bytes (extension fields) must not disturb the header
			}
			for j := 0; j < n; j += 8 {
				binary.LittleEndian.PutUint64(raw[j:], rng.Uint64())
			}
			if i%16 == 1 {
				for j := 0; j < 48; j++ { // sparse strings
					if rng.IntN(4) != 0 {
						raw[j] = []byte{0, 0xff, 0x80, 0x7f}[rng.IntN(4)]
					}
				}
			}
			c14NTPBytes(r, raw[:n], i, id, "random 48-byte string")
			if b == 0 && i < 2 {
				r.Sample(map[string]any{"kind": "ntp header bytes", "hex": ev.Hex(raw[:48])})
			}
		}
		nv.Add(2 * blk)
	})
	if nv.Load() > 0 {
		r.Eval(nv.Load())
		r.DistinctN(nv.Load())
		r.Class("ntp:roundtrip-value")
		r.Class("ntp:roundtrip-bytes")
	}
}

// ---------------------------------------------------------------------------
// CSPTP

func c14Set48(dst *[6]uint8, v uint64) {
	for i := 0; i < 6; i++ {
		dst[i] = uint8(v >> uint(40-8*i))
	}
}

var c14MsgFields = []c14Field[csptp.Message]{
	{"SdoIDMessageType", 8, func(m *csptp.Message, v uint64) { m.SdoIDMessageType = uint8(v) }},
	{"PTPVersion", 8, func(m *csptp.Message, v uint64) { m.PTPVersion = uint8(v) }},
	{"MessageLength", 16, func(m *csptp.Message, v uint64) { m.MessageLength = uint16(v) }},
	{"DomainNumber", 8, func(m *csptp.Message, v uint64) { m.DomainNumber = uint8(v) }},
	{"MinorSdoID", 8, func(m *csptp.Message, v uint64) { m.MinorSdoID = uint8(v) }},
	{"FlagField", 16, func(m *csptp.Message, v uint64) { m.FlagField = uint16(v) }},
	{"CorrectionField", 64, func(m *csptp.Message, v uint64) { m.CorrectionField = int64(v) }},
	{"MessageTypeSpecific", 32, func(m *csptp.Message, v uint64) { m.MessageTypeSpecific = uint32(v) }},
	{"SourcePortIdentity.ClockID", 64, func(m *csptp.Message, v uint64) { m.SourcePortIdentity.ClockID = v }},
	{"SourcePortIdentity.Port", 16, func(m *csptp.Message, v uint64) { m.SourcePortIdentity.Port = uint16(v) }},
	{"SequenceID", 16, func(m *csptp.Message, v uint64) { m.SequenceID = uint16(v) }},
	{"ControlField", 8, func(m *csptp.Message, v uint64) { m.ControlField = uint8(v) }},
	{"LogMessageInterval", 8, func(m *csptp.Message, v uint64) { m.LogMessageInterval = int8(v) }},
	{"Timestamp.Seconds", 48, func(m *csptp.Message, v uint64) { c14Set48(&m.Timestamp.Seconds, v) }},
	{"Timestamp.Nanoseconds", 32, func(m *csptp.Message, v uint64) { m.Timestamp.Nanoseconds = uint32(v) }},
}

var c14ReqFields = []c14Field[csptp.RequestTLV]{
	{"Type", 16, func(t *csptp.RequestTLV, v uint64) { t.Type = uint16(v) }},
	{"Length", 16, func(t *csptp.RequestTLV, v uint64) { t.Length = uint16(v) }},
	{"OrganizationID", 24, func(t *csptp.RequestTLV, v uint64) {
		t.OrganizationID = [3]uint8{uint8(v >> 16), uint8(v >> 8), uint8(v)}
	}},
	{"OrganizationSubType", 24, func(t *csptp.RequestTLV, v uint64) {
		t.OrganizationSubType = [3]uint8{uint8(v >> 16), uint8(v >> 8), uint8(v)}
	}},
	{"FlagField", 32, func(t *csptp.RequestTLV, v uint64) { t.FlagField = uint32(v) }},
}

var c14RespFields = []c14Field[csptp.ResponseTLV]{
	{"Type", 16, func(t *csptp.ResponseTLV, v uint64) { t.Type = uint16(v) }},
	{"Length", 16, func(t *csptp.ResponseTLV, v uint64) { t.Length = uint16(v) }},
	{"OrganizationID", 24, func(t *csptp.ResponseTLV, v uint64) {
		t.OrganizationID = [3]uint8{uint8(v >> 16), uint8(v >> 8), uint8(v)}
	}},
	{"OrganizationSubType", 24, func(t *csptp.ResponseTLV, v uint64) {
		t.OrganizationSubType = [3]uint8{uint8(v >> 16), uint8(v >> 8), uint8(v)}
	}},
	{"FlagField", 32, func(t *csptp.ResponseTLV, v uint64) { t.FlagField = uint32(v) }},
	{"Error", 16, func(t *csptp.ResponseTLV, v uint64) { t.Error = uint16(v) }},
	{"RequestIngressTimestamp.Seconds", 48, func(t *csptp.ResponseTLV, v uint64) { c14Set48(&t.RequestIngressTimestamp.Seconds, v) }},
	{"RequestIngressTimestamp.Nanoseconds", 32, func(t *csptp.ResponseTLV, v uint64) { t.RequestIngressTimestamp.Nanoseconds = uint32(v) }},
	{"RequestCorrectionField", 64, func(t *csptp.ResponseTLV, v uint64) { t.RequestCorrectionField = int64(v) }},
	{"UTCOffset", 16, func(t *csptp.ResponseTLV, v uint64) { t.UTCOffset = int16(v) }},
}

// fields only carried when the ServerStateDS flag is set
var c14RespStateFields = []c14Field[csptp.ResponseTLV]{
	{"ServerStateDS.GMPriority1", 8, func(t *csptp.ResponseTLV, v uint64) { t.ServerStateDS.GMPriority1 = uint8(v) }},
	{"ServerStateDS.GMClockClass", 8, func(t *csptp.ResponseTLV, v uint64) { t.ServerStateDS.GMClockClass = uint8(v) }},
	{"ServerStateDS.GMClockAccuracy", 8, func(t *csptp.ResponseTLV, v uint64) { t.ServerStateDS.GMClockAccuracy = uint8(v) }},
	{"ServerStateDS.GMClockVariance", 16, func(t *csptp.ResponseTLV, v uint64) { t.ServerStateDS.GMClockVariance = uint16(v) }},
	{"ServerStateDS.GMPriority2", 8, func(t *csptp.ResponseTLV, v uint64) { t.ServerStateDS.GMPriority2 = uint8(v) }},
	{"ServerStateDS.GMClockID", 64, func(t *csptp.ResponseTLV, v uint64) { t.ServerStateDS.GMClockID = v }},
	{"ServerStateDS.StepsRemoved", 16, func(t *csptp.ResponseTLV, v uint64) { t.ServerStateDS.StepsRemoved = uint16(v) }},
	{"ServerStateDS.TimeSource", 8, func(t *csptp.ResponseTLV, v uint64) { t.ServerStateDS.TimeSource = uint8(v) }},
	{"ServerStateDS.Reserved", 8, func(t *csptp.ResponseTLV, v uint64) { t.ServerStateDS.Reserved = uint8(v) }},
}

func c14RandMsg(rng *rand.Rand) csptp.Message {
	var m csptp.Message
	for _, f := range c14MsgFields {
		f.set(&m, c14RandBits(rng, f.bits))
	}
	return m
}

// c14RandReq returns a random request TLV; state selects the ServerStateDS flag.
func c14RandReq(rng *rand.Rand, state bool) csptp.RequestTLV {
	var t csptp.RequestTLV
	for _, f := range c14ReqFields {
		f.set(&t, c14RandBits(rng, f.bits))
	}
	t.FlagField &^= csptp.TLVFlagServerStateDS
	if state {
		t.FlagField |= csptp.TLVFlagServerStateDS
	}
	return t
}

func c14RandResp(rng *rand.Rand, state bool) csptp.ResponseTLV {
	var t csptp.ResponseTLV
	for _, f := range c14RespFields {
		f.set(&t, c14RandBits(rng, f.bits))
	}
	t.FlagField &^= csptp.TLVFlagServerStateDS
	if state {
		t.FlagField |= csptp.TLVFlagServerStateDS
		for _, f := range c14RespStateFields {
			f.set(&t, c14RandBits(rng, f.bits))
		}
	}
	return t
}

func c14MsgValue(r *ev.Run, v csptp.Message, id, class string) {
	buf := bytes.Repeat([]byte{0xa5}, csptp.MinMessageLength)
	var d csptp.Message
	var err error
	p := c14Try(func() {
		csptp.EncodeMessage(buf, &v)
		err = csptp.DecodeMessage(&d, buf)
	})
	switch {
	case p != nil:
		r.Violation("csptp.EncodeMessage/DecodeMessage|panic:"+c14Panic(p)+"|"+class, id, map[string]any{"value": fmt.Sprintf("%+v", v), "panic": fmt.Sprint(p)})
	case err != nil:
		r.Violation("csptp.DecodeMessage|wrong-value:own encoding not decodable|"+class, id, map[string]any{"value": fmt.Sprintf("%+v", v), "error": err.Error()})
	case d != v:
		r.Violation("csptp.EncodeMessage/DecodeMessage|wrong-value:decode(encode(v)) != v|"+class, id,
			map[string]any{"value": fmt.Sprintf("%+v", v), "bytes": ev.Hex(buf), "decoded": fmt.Sprintf("%+v", d)})
	}
}

func c14MsgBytes(r *ev.Run, b []byte, id, class string) {
	out := bytes.Repeat([]byte{0x5a}, csptp.MinMessageLength)
	var d csptp.Message
	var err error
	p := c14Try(func() {
		err = csptp.DecodeMessage(&d, b)
		csptp.EncodeMessage(out, &d)
	})
	switch {
	case p != nil:
		r.Violation("csptp.DecodeMessage/EncodeMessage|panic:"+c14Panic(p)+"|"+class, id, map[string]any{"bytes": ev.Hex(b), "panic": fmt.Sprint(p)})
	case err != nil:
		r.Violation("csptp.DecodeMessage|wrong-value:44-byte string not decodable|"+class, id, map[string]any{"bytes": ev.Hex(b), "error": err.Error()})
	case !bytes.Equal(out, b[:csptp.MinMessageLength]):
		r.Violation("csptp.DecodeMessage/EncodeMessage|wrong-value:encode(decode(b)) != b|"+class, id, map[string]any{"bytes": ev.Hex(b[:44]), "reencoded": ev.Hex(out)})
	}
}

// c14ReqValue: value round trip of a request TLV at its declared length.
func c14ReqValue(r *ev.Run, v csptp.RequestTLV, id, class string) {
	var d csptp.RequestTLV
	var err error
	var n int
	var buf []byte
	p := c14Try(func() {
		n = csptp.EncodedRequestTLVLength(&v)
		buf = bytes.Repeat([]byte{0xa5}, n) // exactly the declared length: writing past it panics
		csptp.EncodeRequestTLV(buf, &v)
		err = csptp.DecodeRequestTLV(&d, buf)
	})
	switch {
	case p != nil:
		r.Violation("csptp.EncodeRequestTLV/DecodeRequestTLV|panic:"+c14Panic(p)+"|"+class, id, map[string]any{"value": fmt.Sprintf("%+v", v), "declared_length": n, "panic": fmt.Sprint(p)})
	case err != nil:
		r.Violation("csptp.DecodeRequestTLV|wrong-value:own encoding at the declared length not decodable|"+class, id,
			map[string]any{"value": fmt.Sprintf("%+v", v), "declared_length": n, "bytes": ev.Hex(buf), "error": err.Error()})
	case d != v:
		r.Violation("csptp.EncodeRequestTLV/DecodeRequestTLV|wrong-value:decode(encode(v)) != v|"+class, id,
			map[string]any{"value": fmt.Sprintf("%+v", v), "bytes": ev.Hex(buf), "decoded": fmt.Sprintf("%+v", d)})
	}
}

func c14RespValue(r *ev.Run, v csptp.ResponseTLV, id, class string) {
	var d csptp.ResponseTLV
	var err error
	var n int
	var buf []byte
	// a dirty destination: the decoder must overwrite every field it owns
	for _, f := range c14RespFields {
		f.set(&d, ^uint64(0))
	}
	for _, f := range c14RespStateFields {
		f.set(&d, ^uint64(0))
	}
	p := c14Try(func() {
		n = csptp.EncodedResponseTLVLength(&v)
		buf = bytes.Repeat([]byte{0xa5}, n)
		csptp.EncodeResponseTLV(buf, &v)
		err = csptp.DecodeResponseTLV(&d, buf)
	})
	switch {
	case p != nil:
		r.Violation("csptp.EncodeResponseTLV/DecodeResponseTLV|panic:"+c14Panic(p)+"|"+class, id, map[string]any{"value": fmt.Sprintf("%+v", v), "declared_length": n, "panic": fmt.Sprint(p)})
	case err != nil:
		r.Violation("csptp.DecodeResponseTLV|wrong-value:own encoding at the declared length not decodable|"+class, id,
			map[string]any{"value": fmt.Sprintf("%+v", v), "declared_length": n, "bytes": ev.Hex(buf), "error": err.Error()})
	case d != v:
		r.Violation("csptp.EncodeResponseTLV/DecodeResponseTLV|wrong-value:decode(encode(v)) != v|"+class, id,
			map[string]any{"value": fmt.Sprintf("%+v", v), "bytes": ev.Hex(buf), "decoded": fmt.Sprintf("%+v", d)})
	}
}

func c14Vals(bits int) []uint64 {
	if bits <= 16 {
		vals := make([]uint64, 1<<uint(bits))
		for i := range vals {
			vals[i] = uint64(i)
		}
		return vals
	}
	return c14Boundary(bits)
}

func c14CSPTP(r *ev.Run, want func(string) bool) {
	var n int64
	for _, f := range c14MsgFields {
		id := "csptp:msg-field:" + f.name
		if !want(id) {
			continue
		}
		rng := r.Rng("c14/" + id)
		base := c14RandMsg(rng)
		for i, v := range c14Vals(f.bits) {
			if i%97 == 0 {
				base = c14RandMsg(rng)
			}
			m := base
			f.set(&m, v)
			c14MsgValue(r, m, id, "field sweep")
			n++
		}
		r.Class("csptp:msg-field-sweep")
	}
	for _, state := range []bool{false, true} {
		sfx := ""
		if state {
			sfx = "+state"
		}
		for _, f := range c14ReqFields {
			id := "csptp:req-field" + sfx + ":" + f.name
			if !want(id) {
				continue
			}
			rng := r.Rng("c14/" + id)
			for _, v := range c14Vals(f.bits) {
				t := c14RandReq(rng, state)
				f.set(&t, v) // a FlagField sweep decides the flag itself
				c14ReqValue(r, t, id, "field sweep")
				n++
			}
			r.Class("csptp:req-tlv-field-sweep" + sfx)
		}
		fields := c14RespFields
		if state {
			fields = append(append([]c14Field[csptp.ResponseTLV]{}, c14RespFields...), c14RespStateFields...)
		}
		for _, f := range fields {
			id := "csptp:resp-field" + sfx + ":" + f.name
			if !want(id) {
				continue
			}
			rng := r.Rng("c14/" + id)
			for _, v := range c14Vals(f.bits) {
				t := c14RandResp(rng, state)
				if f.name == "FlagField" {
					// the flag value decides whether the state data set is carried
					t = c14RandResp(rng, uint32(v)&csptp.TLVFlagServerStateDS != 0)
				}
				f.set(&t, v)
				c14RespValue(r, t, id, "field sweep")
				n++
			}
			r.Class("csptp:resp-tlv-field-sweep" + sfx)
		}
	}
	r.Eval(n)
	r.DistinctN(n)

	const blk = 20000
	nblk := r.Pick(5, 500)
	var nv atomic.Int64
	var seen [4]atomic.Int64
	parallel(nblk, func(w, b int) {
		id := fmt.Sprintf("csptp:rand:%d", b)
		if !want(id) {
			return
		}
		rng := r.Rng("c14/" + id)
		raw := make([]byte, 48+56)
		for i := 0; i < blk; i++ {
			c14MsgValue(r, c14RandMsg(rng), id, "random value")
			nb := 44
			if i%8 == 0 {
				nb += rng.IntN(55) // TLV bytes after the header
			}
			for j := 0; j < nb; j += 8 {
				binary.LittleEndian.PutUint64(raw[j:], rng.Uint64())
			}
			c14MsgBytes(r, raw[:nb], id, "random 44-byte string")
			if b == 0 && i < 2 {
				r.Sample(map[string]any{"kind": "csptp header bytes", "hex": ev.Hex(raw[:44])})
			}
			st := i%2 == 1
			c14ReqValue(r, c14RandReq(rng, st), id, "random value")
			c14RespValue(r, c14RandResp(rng, st), id, "random value")
			if st {
				seen[1].Add(1)
				seen[3].Add(1)
			} else {
				seen[0].Add(1)
				seen[2].Add(1)
			}
		}
		nv.Add(4 * blk)
	})
	if nv.Load() > 0 {
		r.Eval(nv.Load())
		r.DistinctN(nv.Load())
		r.Class("csptp:msg-roundtrip-value")
		r.Class("csptp:msg-roundtrip-bytes")
		r.ClassN("csptp:req-tlv", seen[0].Load())
		r.ClassN("csptp:req-tlv+state", seen[1].Load())
		r.ClassN("csptp:resp-tlv", seen[2].Load())
		r.ClassN("csptp:resp-tlv+state", seen[3].Load())
	}
}

// ---------------------------------------------------------------------------
// NTS extension fields

const (
	c14ExtUniqueID    = 0x0104
	c14ExtCookie      = 0x0204
	c14ExtPlaceholder = 0x0304
	c14ExtAuth        = 0x0404
)

type c14Ext struct {
	Type   uint16
	Length uint16
	Off    int
}

// c14Walk walks the extension fields of an encoded packet (harness code, not
// the decoder under test).
func c14Walk(b []byte) (fs []c14Ext, problem string) {
	pos := 48
	for pos < len(b) {
		if len(b)-pos < 4 {
			return fs, "trailing bytes shorter than an extension header"
		}
		f := c14Ext{binary.BigEndian.Uint16(b[pos:]), binary.BigEndian.Uint16(b[pos+2:]), pos}
		fs = append(fs, f)
		if f.Length < 4 {
			return fs, "extension field length < 4"
		}
		if pos+int(f.Length) > len(b) {
			return fs, "extension field runs past the end of the packet"
		}
		pos += int(f.Length)
	}
	return fs, ""
}

func c14KindName(t uint16) string {
	switch t {
	case c14ExtUniqueID:
		return "unique-id"
	case c14ExtCookie:
		return "cookie"
	case c14ExtPlaceholder:
		return "placeholder"
	case c14ExtAuth:
		return "authenticator"
	}
	return "other"
}

func c14Pad4(n int) int { return (n + 3) &^ 3 }

func c14RandBytes(rng *rand.Rand, n int) []byte {
	b := make([]byte, n)
	for i := range b {
		b[i] = byte(rng.Uint32())
	}
	return b
}

// c14ProjectCookie builds a cookie of the project's shape (124 bytes).
func c14ProjectCookie(rng *rand.Rand, serverKey []byte, keyID int, s2c, c2s []byte) []byte {
	sc := ntske.ServerCookie{Algo: ntske.AES_SIV_CMAC_256, S2C: s2c, C2S: c2s}
	ec, err := sc.EncryptWithNonce(serverKey, keyID)
	if err != nil {
		panic(err)
	}
	return ec.Encode()
}

type c14NTSCase struct {
	Shape        string   `json:"shape"`
	UID          string   `json:"unique_id"`
	Cookies      []string `json:"cookies"`
	Placeholders int      `json:"placeholders"`
	EncCookies   []string `json:"encrypted_cookies,omitempty"`
	Packet       string   `json:"packet"`
}

func c14NTSOne(r *ev.Run, id string, rng *rand.Rand) {
	key := c14RandBytes(rng, 32)
	hdr := c14RandNTP(rng)
	var buf []byte
	dirty := rng.IntN(2) == 0
	if dirty {
		// listeners and clients encode into the buffer they last received into: it holds the bytes of
		// an earlier datagram, and it is large enough not to be replaced by the encoder
		old := make([]byte, 4096)
		for i := range old {
			old[i] = byte(0xa5 ^ i)
		}
		buf = old[:0]
	}
	ntp.EncodePacket(&buf, &hdr)
	hdrBytes := append([]byte(nil), buf...)

	var pkt nts.Packet
	var shape string
	var uid []byte
	var cookies [][]byte // plain cookie fields
	var enc [][]byte     // cookies inside the authenticator's ciphertext
	nPlace := 0
	aligned := true
	switch k := rng.IntN(10); {
	case k < 4: // the client's request: 1 cookie + (8 - stored) placeholders, at most 6 fit in 1024 bytes
		stored := 2 + rng.IntN(7)
		var cs [][]byte
		for i := 0; i < stored; i++ {
			cs = append(cs, c14ProjectCookie(rng, key, rng.IntN(65536), c14RandBytes(rng, 32), c14RandBytes(rng, 32)))
		}
		pkt, uid = nts.NewRequestPacket(ntske.Data{C2sKey: key, S2cKey: c14RandBytes(rng, 32), Cookie: cs})
		cookies = [][]byte{cs[0]}
		nPlace = 8 - stored
		shape = "request"
		if nPlace > 0 {
			shape = "request with placeholders"
		}
	case k < 7: // the server's response: cookies travel encrypted
		n := 1 + rng.IntN(7)
		uid = c14RandBytes(rng, 32)
		shape = "response"
		if rng.IntN(2) == 0 {
			for i := 0; i < n; i++ {
				enc = append(enc, c14ProjectCookie(rng, key, rng.IntN(65536), c14RandBytes(rng, 32), c14RandBytes(rng, 32)))
			}
		} else {
			// cookies are opaque to the client: any length a server may choose, equal or mixed, as many as the
			// packet holds
			clen := []int{4, 8, 16, 20, 24, 28, 30, 33, 100, 101, 122, 124, 132}[rng.IntN(13)]
			if rng.IntN(3) == 0 {
				clen = 1 + rng.IntN(132)
			}
			mixed := rng.IntN(4) == 0
			n = 1 + rng.IntN(8)
			longest := clen
			for i := 0; i < n; i++ {
				l := clen
				if mixed && i > 0 {
					l = 1 + rng.IntN(132)
				}
				longest = max(longest, l)
				enc = append(enc, c14RandBytes(rng, l))
			}
			if c := nts.ResponseCookieCapacity(len(uid), longest); n > c {
				n = c
				enc = enc[:n]
			}
			shape = "response with cookies of other lengths"
			if mixed {
				shape = "response with cookies of mixed lengths"
			}
			if n == 0 {
				enc = append(enc, c14RandBytes(rng, 8))
			}
		}
		if p := c14Try(func() { pkt = nts.NewResponsePacket(enc, key, uid) }); p != nil {
			lens := []int{}
			for _, c := range enc {
				lens = append(lens, len(c))
			}
			r.Violation("nts.NewResponsePacket|panic:"+c14Panic(p)+"|"+shape, id, map[string]any{"cookie_lengths": lens, "unique_id_length": len(uid), "panic": fmt.Sprint(p)})
			return
		}
	default: // hand-built field lists within MaxPacketLen
		ulen := 32
		if rng.IntN(2) == 0 {
			ulen = 32 + rng.IntN(33)
		}
		uid = c14RandBytes(rng, ulen)
		ptLen := 0
		if rng.IntN(3) == 0 {
			// encrypted extension fields of any length: the ciphertext, and with it the authenticator's
			// padding, takes every residue modulo four
			ptLen = 1 + rng.IntN(40)
		}
		room := nts.MaxPacketLen - 48 - 4 - c14Pad4(ulen) - 40 - c14Pad4(ptLen)
		clen := []int{124, 4, 8, 64, 100, 128, 200}[rng.IntN(7)]
		if rng.IntN(3) == 0 {
			clen = 1 + rng.IntN(200)
		}
		maxf := room / (4 + c14Pad4(clen))
		nc := 0
		if maxf > 0 {
			nc = rng.IntN(min(maxf, 8) + 1)
		}
		for i := 0; i < nc; i++ {
			cookies = append(cookies, c14RandBytes(rng, clen))
		}
		if maxf-nc > 0 {
			nPlace = rng.IntN(min(maxf-nc, 7) + 1)
		}
		pkt.UniqueID.ID = uid
		for _, c := range cookies {
			pkt.Cookies = append(pkt.Cookies, nts.Cookie{Cookie: c})
		}
		for i := 0; i < nPlace; i++ {
			pkt.CookiePlaceholders = append(pkt.CookiePlaceholders, nts.CookiePlaceholder{Cookie: make([]byte, clen)})
		}
		pkt.Auth.Key = key
		if ptLen > 0 {
			pkt.Auth.PlainText = c14RandBytes(rng, ptLen)
		}
		aligned = ulen%4 == 0 && (clen%4 == 0 || nc == 0)
		shape = "hand-built"
		if nPlace > 0 {
			shape = "hand-built with placeholders"
		}
	}
	if p := c14Try(func() { nts.EncodePacket(&buf, &pkt) }); p != nil {
		r.Violation("nts.EncodePacket|panic:"+c14Panic(p)+"|"+shape, id, map[string]any{"panic": fmt.Sprint(p), "cookies": len(cookies), "placeholders": nPlace})
		return
	}
	cs := c14NTSCase{Shape: shape, UID: ev.Hex(uid), Placeholders: nPlace, Packet: ev.Hex(buf)}
	for _, c := range cookies {
		cs.Cookies = append(cs.Cookies, ev.Hex(c))
	}
	for _, c := range enc {
		cs.EncCookies = append(cs.EncCookies, ev.Hex(c))
	}
	if !bytes.Equal(buf[:48], hdrBytes) {
		r.Violation("nts.EncodePacket|wrong-value:NTP header changed|"+shape, id, cs)
	}

	// the harness's own walk over the encoded bytes
	fs, problem := c14Walk(buf)
	if problem != "" {
		r.Violation("nts.EncodePacket|wrong-value:"+problem+"|"+shape, id, cs)
		return
	}
	for _, f := range fs {
		if f.Length%4 != 0 {
			r.Violation("nts.EncodePacket|wrong-value:extension field length not a multiple of 4|"+c14KindName(f.Type)+" field", id, cs)
			return
		}
	}
	var wantTypes []uint16
	wantTypes = append(wantTypes, c14ExtUniqueID)
	for range cookies {
		wantTypes = append(wantTypes, c14ExtCookie)
	}
	for i := 0; i < nPlace; i++ {
		wantTypes = append(wantTypes, c14ExtPlaceholder)
	}
	wantTypes = append(wantTypes, c14ExtAuth)
	if len(fs) != len(wantTypes) {
		r.Violation("nts.EncodePacket|wrong-value:number of extension fields|"+shape, id, map[string]any{"case": cs, "fields": fs, "expected_types": wantTypes})
		return
	}
	kindsOK := true
	onlyPlaceholderAsCookie := true
	var wrongKind string
	for i, f := range fs {
		if f.Type != wantTypes[i] {
			kindsOK = false
			if !(wantTypes[i] == c14ExtPlaceholder && f.Type == c14ExtCookie) {
				onlyPlaceholderAsCookie = false
			}
			if wrongKind == "" {
				wrongKind = c14KindName(wantTypes[i])
			}
		}
	}
	toDecode := buf
	if kindsOK {
		r.Class("nts:" + strings.ReplaceAll(shape, " ", "-") + ":kinds-preserved")
	} else {
		r.Class("nts:" + strings.ReplaceAll(shape, " ", "-") + ":kind-changed")
		if onlyPlaceholderAsCookie {
			r.Violation(fmt.Sprintf("nts.EncodePacket|wrong-value:placeholder encoded with cookie type 0x%04x|request with placeholders", c14ExtCookie), id,
				map[string]any{"case": cs, "fields": fs, "expected_types": wantTypes})
		} else {
			r.Violation("nts.EncodePacket|wrong-value:extension field type differs from the kind encoded|"+wrongKind+" field", id,
				map[string]any{"case": cs, "fields": fs, "expected_types": wantTypes})
		}
		// check the decoder separately on the encoding with the kinds the harness asked for
		toDecode = append([]byte(nil), buf...)
		for i, f := range fs {
			binary.BigEndian.PutUint16(toDecode[f.Off:], wantTypes[i])
		}
	}

	// decoder: every field comes back as the kind that was encoded, with its bytes
	var d nts.Packet
	var err error
	if p := c14Try(func() { err = nts.DecodePacket(&d, toDecode) }); p != nil {
		r.Violation("nts.DecodePacket|panic:"+c14Panic(p)+"|"+shape, id, map[string]any{"case": cs, "panic": fmt.Sprint(p)})
		return
	}
	if err != nil {
		r.Violation("nts.DecodePacket|wrong-value:valid encoding not decodable|"+shape, id, map[string]any{"case": cs, "decoded_bytes": ev.Hex(toDecode), "error": err.Error()})
		return
	}
	padEq := func(got, want []byte) bool { // value bytes, zero padded to 4
		if len(got) != c14Pad4(len(want)) || !bytes.Equal(got[:len(want)], want) {
			return false
		}
		for _, x := range got[len(want):] {
			if x != 0 {
				return false
			}
		}
		return true
	}
	bad := ""
	switch {
	case !padEq(d.UniqueID.ID, uid):
		bad = "unique identifier bytes differ"
	case len(d.Cookies) != len(cookies):
		bad = "number of cookie fields differs"
	case len(d.CookiePlaceholders) != nPlace:
		bad = "number of placeholder fields differs"
	}
	if bad == "" {
		for i := range cookies {
			if !padEq(d.Cookies[i].Cookie, cookies[i]) {
				bad = "cookie bytes differ"
			}
		}
	}
	if bad == "" {
		a := fs[len(fs)-1]
		nl := int(binary.BigEndian.Uint16(buf[a.Off+4:]))
		cl := int(binary.BigEndian.Uint16(buf[a.Off+6:]))
		if a.Off+8+c14Pad4(nl)+cl > len(buf) || !bytes.Equal(d.Auth.Nonce, buf[a.Off+8:a.Off+8+nl]) ||
			!bytes.Equal(d.Auth.CipherText, buf[a.Off+8+c14Pad4(nl):a.Off+8+c14Pad4(nl)+cl]) {
			bad = "authenticator nonce/ciphertext bytes differ"
		}
	}
	if bad != "" {
		r.Violation("nts.DecodePacket|wrong-value:"+bad+"|"+shape, id,
			map[string]any{"case": cs, "decoded_bytes": ev.Hex(toDecode), "decoded_cookies": len(d.Cookies), "decoded_placeholders": len(d.CookiePlaceholders),
				"decoded_unique_id": ev.Hex(d.UniqueID.ID)})
		return
	}
	if aligned {
		r.Class("nts:fields-aligned-values")
	} else {
		r.Class("nts:fields-padded-values")
		if dirty {
			r.Class("nts:fields-padded-values,encoded into a buffer holding an earlier datagram")
		}
	}
	// the cookies a response carries inside the authenticator come back as cookies
	if len(enc) > 0 && kindsOK {
		var f ntske.Fetcher
		var perr error
		if p := c14Try(func() { perr = nts.ProcessResponse(buf, key, &f, &d, uid) }); p != nil {
			r.Violation("nts.ProcessResponse|panic:"+c14Panic(p)+"|"+shape, id, map[string]any{"case": cs, "panic": fmt.Sprint(p)})
			return
		}
		ok := perr == nil && len(d.Cookies) == len(enc)
		if ok {
			for i := range enc {
				// a cookie whose length is not a multiple of four comes back zero-padded to one ("4-byte aligned")
				got := d.Cookies[i].Cookie
				ok = ok && len(got) == c14Pad4(len(enc[i])) && bytes.Equal(got[:len(enc[i])], enc[i]) &&
					bytes.Equal(got[len(enc[i]):], make([]byte, len(got)-len(enc[i])))
			}
		}
		if !ok {
			e := ""
			if perr != nil {
				e = perr.Error()
			}
			r.Violation("nts.NewResponsePacket/ProcessResponse|wrong-value:encrypted cookies do not come back as the cookies encoded|"+shape, id,
				map[string]any{"case": cs, "error": e, "decoded_cookies": len(d.Cookies)})
			return
		}
		r.Class("nts:response-encrypted-cookies-roundtrip")
	}
	r.Sample(cs)
}

// ---------------------------------------------------------------------------
// server cookies

func c14Cookies(r *ev.Run, want func(string) bool) {
	var total atomic.Int64
	nblk := r.Pick(8, 400)
	parallel(nblk+1, func(w, b int) {
		id := fmt.Sprintf("cookie:%d", b)
		if !want(id) {
			return
		}
		rng := r.Rng("c14/" + id)
		n := 2000
		if b == nblk {
			n = 65536 // 16-bit fields exhaustively: algorithm, key id
		}
		for i := 0; i < n; i++ {
			algo := uint16(c14RandBits(rng, 16))
			keyID := int(c14RandBits(rng, 16))
			if b == nblk {
				algo, keyID = uint16(i), i
			}
			l1, l2 := 32, 32
			if rng.IntN(4) == 0 {
				l1, l2 = rng.IntN(65), rng.IntN(65)
			}
			sc := ntske.ServerCookie{Algo: algo, S2C: c14RandBytes(rng, l1), C2S: c14RandBytes(rng, l2)}
			w := map[string]any{"algo": algo, "s2c": ev.Hex(sc.S2C), "c2s": ev.Hex(sc.C2S), "key_id": keyID}
			same := func(d *ntske.ServerCookie) bool {
				return d.Algo == sc.Algo && bytes.Equal(d.S2C, sc.S2C) && bytes.Equal(d.C2S, sc.C2S)
			}
			// plaintext cookie
			var d ntske.ServerCookie
			var err error
			var enc []byte
			if p := c14Try(func() { enc = sc.Encode(); err = d.Decode(enc) }); p != nil {
				r.Violation("ntske.ServerCookie.Encode/Decode|panic:"+c14Panic(p)+"|plaintext cookie", id, w)
				continue
			}
			if err != nil || !same(&d) {
				w["encoded"] = ev.Hex(enc)
				r.Violation("ntske.ServerCookie.Encode/Decode|wrong-value:decode(encode(v)) != v|plaintext cookie", id, w)
				continue
			}
			// encrypted cookie container
			ec := ntske.EncryptedServerCookie{ID: uint16(keyID), Nonce: c14RandBytes(rng, 16), Ciphertext: c14RandBytes(rng, 16+rng.IntN(100))}
			if rng.IntN(4) == 0 {
				ec.Nonce = c14RandBytes(rng, rng.IntN(33))
			}
			var de ntske.EncryptedServerCookie
			if p := c14Try(func() { enc = ec.Encode(); err = de.Decode(enc) }); p != nil {
				r.Violation("ntske.EncryptedServerCookie.Encode/Decode|panic:"+c14Panic(p)+"|encrypted cookie", id, map[string]any{"id": ec.ID, "nonce": ev.Hex(ec.Nonce), "ciphertext": ev.Hex(ec.Ciphertext)})
				continue
			}
			if err != nil || de.ID != ec.ID || !bytes.Equal(de.Nonce, ec.Nonce) || !bytes.Equal(de.Ciphertext, ec.Ciphertext) {
				r.Violation("ntske.EncryptedServerCookie.Encode/Decode|wrong-value:decode(encode(v)) != v|encrypted cookie", id,
					map[string]any{"id": ec.ID, "nonce": ev.Hex(ec.Nonce), "ciphertext": ev.Hex(ec.Ciphertext), "encoded": ev.Hex(enc)})
				continue
			}
			// seal -> encode -> decode -> open
			key := c14RandBytes(rng, 32)
			var got ntske.ServerCookie
			var e1, e2, e3 error
			var sealed ntske.EncryptedServerCookie
			if p := c14Try(func() {
				sealed, e1 = sc.EncryptWithNonce(key, keyID)
				enc = sealed.Encode()
				var back ntske.EncryptedServerCookie
				e2 = back.Decode(enc)
				if e1 == nil && e2 == nil {
					got, e3 = back.Decrypt(key)
					if back.ID != uint16(keyID) {
						e3 = fmt.Errorf("key id %d decoded as %d", keyID, back.ID)
					}
				}
			}); p != nil {
				w["key"] = ev.Hex(key)
				w["panic"] = fmt.Sprint(p)
				r.Violation("ntske.ServerCookie.EncryptWithNonce/Decrypt|panic:"+c14Panic(p)+"|sealed cookie", id, w)
				continue
			}
			if e1 != nil || e2 != nil || e3 != nil || !same(&got) {
				w["key"] = ev.Hex(key)
				w["encoded"] = ev.Hex(enc)
				w["errors"] = fmt.Sprint(e1, e2, e3)
				r.Violation("ntske.ServerCookie.EncryptWithNonce/Decrypt|wrong-value:sealed cookie does not open to (algo,S2C,C2S)|sealed cookie", id, w)
				continue
			}
			if b == 0 && i == 0 {
				r.Sample(map[string]any{"kind": "sealed server cookie", "hex": ev.Hex(enc), "algo": algo, "key_id": keyID})
			}
		}
		total.Add(int64(3 * n))
	})
	if total.Load() > 0 {
		r.Eval(total.Load())
		r.DistinctN(total.Load())
		r.Class("cookie:plaintext-roundtrip")
		r.Class("cookie:encrypted-container-roundtrip")
		r.Class("cookie:seal-open-roundtrip")
		if want(fmt.Sprintf("cookie:%d", nblk)) {
			r.Class("cookie:algo-and-keyid-all-65536")
		}
	}
}

// ---------------------------------------------------------------------------
// NTS-KE records and stream segmentation

type c14Rec struct {
	Kind   string `json:"kind"`
	Off    int    `json:"offset"`
	Body   int    `json:"body_offset"`
	End    int    `json:"end"`
	record ntske.Record
}

type c14KEMsg struct {
	recs    []c14Rec
	stream  []byte
	expect  ntske.Data
	wantErr bool // a Warning or Error record ends the exchange with an error
	multi   bool // an AEAD record that lists several algorithms
	algos   []uint16
}

func c14GenKE(rng *rand.Rand, shape int) *c14KEMsg {
	m := &c14KEMsg{}
	type item struct {
		kind string
		rec  ntske.Record
	}
	var items []item
	items = append(items, item{"nextproto", ntske.NextProto{NextProto: ntske.NTPv4}})
	algo := uint16(ntske.AES_SIV_CMAC_256)
	if rng.IntN(3) == 0 {
		algo = uint16(c14RandBits(rng, 16))
	}
	m.algos = []uint16{algo}
	if shape == 1 {
		m.multi = true
		for i := 1 + rng.IntN(4); i > 0; i-- {
			m.algos = append(m.algos, uint16(c14RandBits(rng, 16)))
		}
	}
	items = append(items, item{"aead", ntske.Algorithm{Algo: m.algos}})
	var server []byte
	hasServer := rng.IntN(5) != 0
	if hasServer {
		switch rng.IntN(4) {
		case 0:
			server = []byte(fmt.Sprintf("%d.%d.%d.%d", rng.IntN(256), rng.IntN(256), rng.IntN(256), rng.IntN(256)))
		case 1:
			server = []byte("ntp" + fmt.Sprint(rng.IntN(1000)) + ".example.org")
		case 2:
			server = c14RandBytes(rng, rng.IntN(300))
		default:
			server = []byte("fd00:1:2::" + fmt.Sprintf("%x", rng.IntN(65536)))
		}
		items = append(items, item{"server", ntske.Server{Addr: server, Critical: rng.IntN(2) == 0}})
	}
	var port uint16
	hasPort := rng.IntN(5) != 0
	if hasPort {
		port = uint16(c14RandBits(rng, 16))
		items = append(items, item{"port", ntske.Port{Port: port, Critical: rng.IntN(2) == 0}})
	}
	nc := 8
	if rng.IntN(3) == 0 {
		nc = rng.IntN(10)
	}
	var cookies [][]byte
	for i := 0; i < nc; i++ {
		l := 124
		switch rng.IntN(6) {
		case 0:
			l = 1 + rng.IntN(300)
		case 1:
			l = []int{1, 2, 3, 4, 16, 100, 128, 255, 256, 1000}[rng.IntN(10)]
		}
		c := c14RandBytes(rng, l)
		if rng.IntN(3) == 0 { // bodies that look like record headers expose a desynchronised stream
			for j := 0; j+4 <= l; j += 4 {
				copy(c[j:], []byte{0x80, 0x00, 0x00, 0x00})
			}
		}
		cookies = append(cookies, c)
		items = append(items, item{"cookie", ntske.Cookie{Cookie: c}})
	}
	if shape == 2 {
		items = append(items, item{"warning", ntske.Warning{Code: uint16(c14RandBits(rng, 16))}})
	}
	if shape == 3 {
		items = append(items, item{"error", ntske.Error{Code: uint16(rng.IntN(5))}})
	}
	if rng.IntN(3) == 0 { // records may come in any order
		rng.Shuffle(len(items), func(i, j int) { items[i], items[j] = items[j], items[i] })
	}
	items = append(items, item{"end", ntske.End{}})

	var msg ntske.ExchangeMsg
	for _, it := range items {
		msg.AddRecord(it.rec)
	}
	buf, err := msg.Pack()
	if err != nil {
		panic(err)
	}
	m.stream = buf.Bytes()
	// record types this implementation does not know, without the critical bit, are to be skipped
	// whatever their bodies look like and however the transport cuts them; they are spliced into
	// the packed stream in front of randomly chosen records
	kinds := make([]string, 0, len(items)+4)
	for _, it := range items {
		kinds = append(kinds, it.kind)
	}
	if shape == 0 && rng.IntN(4) == 0 && len(m.stream) >= 6 && m.stream[0] == 0x80 && m.stream[1] == 0x01 && m.stream[3] == 2 {
		// a Next Protocol Negotiation record may list several protocol IDs (RFC 8915, 4.1.2); the
		// records behind it are framed by its announced length like behind any other record
		extra := 1 + rng.IntN(3)
		body := append([]byte{}, m.stream[4:6]...)
		for i := 0; i < extra; i++ {
			body = append(body, byte(0x80|rng.IntN(0x80)), byte(rng.IntN(256)))
		}
		if rng.IntN(2) == 0 { // NTPv4 need not come first
			copy(body[0:2], body[len(body)-2:])
			body[len(body)-2], body[len(body)-1] = 0, 0
		}
		rec := append([]byte{0x80, 0x01, 0, byte(len(body))}, body...)
		m.stream = append(rec, m.stream[6:]...)
		kinds[0] = "nextproto-list"
	}
	if shape == 0 && rng.IntN(3) == 0 {
		var out []byte
		var ks []string
		pos := 0
		for i := 0; pos+4 <= len(m.stream); i++ {
			bl := int(binary.BigEndian.Uint16(m.stream[pos+2:]))
			if rng.IntN(4) == 0 {
				body := c14RandBytes(rng, []int{0, 1, 4, 8, 23, 60, 200}[rng.IntN(7)])
				if rng.IntN(2) == 0 { // a body that reads as records of its own: a cookie and an end of message
					body = append([]byte{0x00, 0x05, 0x00, 0x04, 0xde, 0xad, 0xbe, 0xef, 0x80, 0x00, 0x00, 0x00}, body...)
				}
				typ := uint16(8 + rng.IntN(0x3ff0)) // unassigned record types, critical bit clear
				hdr := []byte{byte(typ >> 8), byte(typ), byte(len(body) >> 8), byte(len(body))}
				out = append(append(out, hdr...), body...)
				ks = append(ks, "unknown-noncritical")
			}
			out = append(out, m.stream[pos:pos+4+bl]...)
			if i < len(kinds) {
				ks = append(ks, kinds[i])
			} else {
				ks = append(ks, "?")
			}
			pos += 4 + bl
		}
		m.stream, kinds = out, ks
	}
	// record spans, from the harness's own walk over the packed stream
	pos := 0
	for i := 0; pos+4 <= len(m.stream); i++ {
		bl := int(binary.BigEndian.Uint16(m.stream[pos+2:]))
		kind := "?"
		if i < len(kinds) {
			kind = kinds[i]
		}
		m.recs = append(m.recs, c14Rec{Kind: kind, Off: pos, Body: pos + 4, End: pos + 4 + bl})
		pos += 4 + bl
	}
	// expected Data: records are applied in order until End, Warning or Error
	for _, it := range items {
		stop := false
		switch v := it.rec.(type) {
		case ntske.Algorithm:
			m.expect.Algo = v.Algo[0]
		case ntske.Server:
			m.expect.Server = string(v.Addr)
		case ntske.Port:
			m.expect.Port = v.Port
		case ntske.Cookie:
			m.expect.Cookie = append(m.expect.Cookie, v.Cookie)
		case ntske.Warning, ntske.Error:
			m.wantErr = true
			stop = true
		case ntske.End:
			stop = true
		}
		if stop {
			break
		}
	}
	return m
}

type c14Outcome struct {
	errText string
	isErr   bool
	data    ntske.Data
	panicV  any
}

func c14DataEq(a, b *ntske.Data) bool {
	if a.Algo != b.Algo || a.Server != b.Server || a.Port != b.Port || len(a.Cookie) != len(b.Cookie) ||
		!bytes.Equal(a.C2sKey, b.C2sKey) || !bytes.Equal(a.S2cKey, b.S2cKey) {
		return false
	}
	for i := range a.Cookie {
		if !bytes.Equal(a.Cookie[i], b.Cookie[i]) {
			return false
		}
	}
	return true
}

func (o *c14Outcome) eq(p *c14Outcome) bool {
	return o.panicV == nil && p.panicV == nil && o.isErr == p.isErr && c14DataEq(&o.data, &p.data)
}

func (o *c14Outcome) witness() map[string]any {
	cs := []string{}
	for _, c := range o.data.Cookie {
		cs = append(cs, ev.Hex(c))
	}
	w := map[string]any{"error": o.errText, "algo": o.data.Algo, "server": o.data.Server, "port": o.data.Port, "cookies": cs}
	if o.panicV != nil {
		w["panic"] = fmt.Sprint(o.panicV)
	}
	return w
}

var c14Log = slog.New(slog.DiscardHandler)

func c14Read(rd *bufio.Reader) (o c14Outcome) {
	o.panicV = c14Try(func() {
		err := ntske.ReadData(context.Background(), c14Log, rd, &o.data)
		if err != nil {
			o.isErr, o.errText = true, err.Error()
		}
	})
	return o
}

// c14SegReader delivers b, ending a Read at every offset listed in cuts.
type c14SegReader struct {
	b    []byte
	pos  int
	cuts []int // ascending
	ci   int
}

func (s *c14SegReader) Read(p []byte) (int, error) {
	if s.pos >= len(s.b) {
		return 0, io.EOF
	}
	if len(p) == 0 {
		return 0, nil
	}
	end := len(s.b)
	for s.ci < len(s.cuts) && s.cuts[s.ci] <= s.pos {
		s.ci++
	}
	if s.ci < len(s.cuts) && s.cuts[s.ci] < end {
		end = s.cuts[s.ci]
	}
	n := copy(p, s.b[s.pos:end])
	s.pos += n
	return n, nil
}

// c14Recorder records the stream offsets at which the Reads of the wrapped reader ended.
type c14Recorder struct {
	r      io.Reader
	off    int
	bounds []int
}

func (c *c14Recorder) Read(p []byte) (int, error) {
	n, err := c.r.Read(p)
	if n > 0 {
		c.off += n
		c.bounds = append(c.bounds, c.off)
	}
	return n, err
}

// c14CutClass names where a read boundary at stream offset x falls.
func (m *c14KEMsg) cutClass(x int) string {
	for _, rc := range m.recs {
		switch {
		case x == rc.Off || x == rc.Body || x == rc.End:
			continue
		case x > rc.Off && x < rc.Body:
			return "record header"
		case x > rc.Body && x < rc.End:
			return rc.Kind + " body"
		}
	}
	return "field boundary"
}

func (m *c14KEMsg) witness(mode string, bounds []int, ref, got *c14Outcome) map[string]any {
	if len(bounds) > 64 {
		bounds = bounds[:64]
	}
	return map[string]any{"stream": ev.Hex(m.stream), "records": m.recs, "delivery": mode, "read_boundaries": bounds,
		"unsegmented": ref.witness(), "segmented": got.witness()}
}

func c14KEOne(r *ev.Run, id string, rng *rand.Rand, shape int, nMulti int, cnt *atomic.Int64) {
	m := c14GenKE(rng, shape)
	ref := c14Read(bufio.NewReaderSize(bytes.NewReader(m.stream), len(m.stream)+16))
	cnt.Add(1)
	if ref.panicV != nil {
		r.Violation("ntske.ReadData|panic:"+c14Panic(ref.panicV)+"|packed record stream", id, m.witness("unsegmented", nil, &ref, &ref))
		return
	}
	if m.multi {
		// several algorithms in one AEAD record: Data keeps one of them; the other records must survive
		okAlgo := false
		for _, a := range m.algos {
			okAlgo = okAlgo || a == ref.data.Algo
		}
		e := m.expect
		e.Algo = ref.data.Algo
		if ref.isErr || !okAlgo || !c14DataEq(&ref.data, &e) {
			r.Class("ntske:aead-list:records-lost")
			r.Violation("ntske.ReadData|wrong-value:records packed after an AEAD record with several algorithms are not decoded|algorithm list length>1", id,
				map[string]any{"stream": ev.Hex(m.stream), "records": m.recs, "algorithms": m.algos, "decoded": ref.witness(),
					"expected_server": m.expect.Server, "expected_port": m.expect.Port, "expected_cookies": len(m.expect.Cookie)})
			return
		}
		r.Class("ntske:aead-list:roundtrip")
	} else if m.wantErr {
		if !ref.isErr {
			r.Violation("ntske.ReadData|wrong-value:Warning/Error record decoded without an error|packed record stream", id, m.witness("unsegmented", nil, &ref, &ref))
			return
		}
		r.Class("ntske:warning-or-error-record:error")
	} else {
		if ref.isErr || !c14DataEq(&ref.data, &m.expect) {
			exp := c14Outcome{data: m.expect}
			r.Violation("ntske.ReadData|wrong-value:decoded data differs from the records packed|packed record stream", id, m.witness("unsegmented", nil, &exp, &ref))
			return
		}
		r.Class("ntske:roundtrip")
	}
	r.Distinct(id)

	// class: "cookie body", "record header", "<kind> body", "field boundary" or "several"
	report := func(mode, class string, bounds []int, got *c14Outcome) {
		where := "cut inside " + class
		switch class {
		case "field boundary":
			where = "cut at a field boundary"
		case "several":
			where = "several cuts (no single cut reproduces it)"
		}
		kind := "wrong-value:data differs under segmentation"
		if got.panicV != nil {
			kind = "panic:" + c14Panic(got.panicV)
		}
		r.Violation("ntske.ReadData|"+kind+"|"+where, id, m.witness(mode, bounds, &ref, got))
	}
	single := func(c int) c14Outcome {
		cnt.Add(1)
		return c14Read(bufio.NewReaderSize(&c14SegReader{b: m.stream, cuts: []int{c}}, len(m.stream)+16))
	}
	// every single cut point of the message
	for c := 1; c < len(m.stream); c++ {
		got := single(c)
		class := m.cutClass(c)
		cn := "ntske:cut-in-" + strings.ReplaceAll(class, " ", "-")
		if class == "field boundary" {
			cn = "ntske:cut-at-field-boundary"
		}
		if got.eq(&ref) {
			r.Class(cn + ":same")
			continue
		}
		r.Class(cn + ":differs")
		report("single cut", class, []int{c}, &got)
	}
	// deliveries with many read boundaries
	type delivery struct {
		name string
		mk   func(rec *c14Recorder) *bufio.Reader
		src  func() io.Reader
	}
	plain := func() io.Reader { return bytes.NewReader(m.stream) }
	def := func(rec *c14Recorder) *bufio.Reader { return bufio.NewReader(rec) }
	ds := []delivery{
		{"one-byte", def, func() io.Reader { return iotest.OneByteReader(plain()) }},
		{"half", def, func() io.Reader { return iotest.HalfReader(plain()) }},
		{"data+eof", def, func() io.Reader { return iotest.DataErrReader(plain()) }},
		{"bufio16", func(rec *c14Recorder) *bufio.Reader { return bufio.NewReaderSize(rec, 16) }, plain},
		{"bufio-small", func(rec *c14Recorder) *bufio.Reader { return bufio.NewReaderSize(rec, 17+rng.IntN(240)) }, plain},
		{"bufio16+half", func(rec *c14Recorder) *bufio.Reader { return bufio.NewReaderSize(rec, 16) }, func() io.Reader { return iotest.HalfReader(plain()) }},
	}
	for i := 0; i < nMulti; i++ {
		var cuts []int
		switch i % 3 {
		case 0: // a few cuts
			for k := 1 + rng.IntN(6); k > 0; k-- {
				cuts = append(cuts, 1+rng.IntN(len(m.stream)))
			}
		case 1: // chunks of random size, as a TCP/TLS/QUIC stream delivers them
			mx := []int{2, 7, 40, 200, 600}[rng.IntN(5)]
			for p := 0; p < len(m.stream); {
				p += 1 + rng.IntN(mx)
				cuts = append(cuts, p)
			}
		default: // cuts around record edges
			for k := 1 + rng.IntN(4); k > 0; k-- {
				rc := m.recs[rng.IntN(len(m.recs))]
				cuts = append(cuts, []int{rc.Off + 1, rc.Off + 2, rc.Off + 3, rc.Body, rc.Body + 1, rc.End - 1, rc.End}[rng.IntN(7)])
			}
		}
		sort.Ints(cuts)
		cc := cuts
		ds = append(ds, delivery{"multi-cut", def, func() io.Reader { return &c14SegReader{b: m.stream, cuts: cc} }})
	}
	for _, d := range ds {
		rec := &c14Recorder{r: d.src()}
		cnt.Add(1)
		got := c14Read(d.mk(rec))
		if got.eq(&ref) {
			r.Class("ntske:" + d.name + ":same")
			continue
		}
		r.Class("ntske:" + d.name + ":differs")
		// is one of the read boundaries alone (as a single cut) enough?  then it is that class;
		// this also holds for the small bufio readers, whose short reads end at the recorded boundaries
		class := ""
		for _, x := range rec.bounds {
			if x > 0 && x < len(m.stream) {
				if g := single(x); !g.eq(&ref) {
					class = m.cutClass(x)
					break
				}
			}
		}
		if class == "" {
			class = "several"
		}
		report(d.name, class, rec.bounds, &got)
	}
}

func c14KE(r *ev.Run, want func(string) bool) {
	var cnt atomic.Int64
	n := r.Pick(240, 12000)
	parallel(n, func(w, i int) {
		id := fmt.Sprintf("ntske:msg:%d", i)
		if !want(id) {
			return
		}
		rng := r.Rng("c14/" + id)
		shape := 0
		switch i % 12 {
		case 3:
			shape = 1 // AEAD record with several algorithms
		case 6:
			shape = 2 // with a Warning record
		case 9:
			shape = 3 // with an Error record
		}
		c14KEOne(r, id, rng, shape, r.Pick(30, 60), &cnt)
		if i < 2 {
			m := c14GenKE(r.Rng("c14/"+id), shape)
			r.Sample(map[string]any{"kind": "nts-ke record stream", "hex": ev.Hex(m.stream), "records": m.recs})
		}
	})
	// 16-bit fields exhaustively: port and algorithm in a minimal message
	if want("ntske:u16") {
		var bad atomic.Int64
		parallel(64, func(w, b int) {
			for v := b * 1024; v < (b+1)*1024; v++ {
				var msg ntske.ExchangeMsg
				msg.AddRecord(ntske.NextProto{NextProto: ntske.NTPv4})
				msg.AddRecord(ntske.Algorithm{Algo: []uint16{uint16(v)}})
				msg.AddRecord(ntske.Port{Port: uint16(v ^ 0x5aa5)})
				msg.AddRecord(ntske.Cookie{Cookie: []byte{byte(v), byte(v >> 8), 3, 4}})
				msg.AddRecord(ntske.End{})
				buf, err := msg.Pack()
				if err != nil {
					panic(err)
				}
				o := c14Read(bufio.NewReader(bytes.NewReader(buf.Bytes())))
				cnt.Add(1)
				if o.panicV != nil || o.isErr || o.data.Algo != uint16(v) || o.data.Port != uint16(v^0x5aa5) || len(o.data.Cookie) != 1 ||
					!bytes.Equal(o.data.Cookie[0], []byte{byte(v), byte(v >> 8), 3, 4}) {
					if bad.Add(1) <= 3 {
						r.Violation("ntske.ReadData|wrong-value:decoded data differs from the records packed|16-bit field sweep", "ntske:u16",
							map[string]any{"stream": ev.Hex(buf.Bytes()), "algo": v, "port": v ^ 0x5aa5, "decoded": o.witness()})
					}
				}
			}
		})
		r.DistinctN(65536)
		r.Class("ntske:port-and-algo-all-65536")
	}
	r.Eval(cnt.Load())
}

func init() {
	register("C14", "exploration", func(r *ev.Run) {
		only := r.Only()
		want := func(id string) bool { return only == "" || only == id }

		c14NTP(r, want)
		c14CSPTP(r, want)

		var nn atomic.Int64
		parallel(r.Pick(3000, 200000), func(w, i int) {
			id := fmt.Sprintf("nts:pkt:%d", i)
			if !want(id) {
				return
			}
			c14NTSOne(r, id, r.Rng("c14/"+id))
			nn.Add(1)
		})
		r.Eval(nn.Load())
		r.DistinctN(nn.Load())

		c14Cookies(r, want)
		c14KE(r, want)

		r.Assume("NTS extension fields: value lengths that are not multiples of 4 are compared up to the zero padding (the wire format does not carry the unpadded length)")
		r.Assume("NTS packets are generated within nts.MaxPacketLen (larger ones belong to C11)")
		r.Assume("a ResponseTLV without the ServerStateDS flag is generated with a zero ServerStateDS (the data set is not part of its declared length)")
		r.Assume("NTS-KE: a Warning or Error record is expected to end ReadData with an error; Data holds a single algorithm, so for an AEAD record listing several the first/any listed one is accepted and the other records must still decode")
		r.Finish("NTP: all 256 first bytes x all setter values, every 8/16-bit field exhaustively, 32-bit fields on boundary values, random values and random 48-byte strings (+trailing bytes) through four buffer shapes; "+
			"CSPTP: same for the 44-byte header, request/response TLVs with and without ServerStateDS at exactly EncodedXxxTLVLength bytes; NTS: client requests (NewRequestPacket, 0..6 placeholders), server responses "+
			"(NewResponsePacket, 1..7 encrypted cookies) and hand-built field lists, encoded by nts.EncodePacket, walked by the harness (type/length words) and decoded by nts.DecodePacket/ProcessResponse; server cookies: plaintext, "+
			"encrypted container, seal/open, algorithm and key id over all 65 536 values; NTS-KE: generated record lists (order, optional records, cookie sizes, Warning/Error, algorithm lists) packed by ExchangeMsg.Pack, "+
			"decoded unsegmented, with a cut at every byte offset, through iotest.OneByteReader/HalfReader/DataErrReader, random multi-cut readers and bufio readers of 16..256 bytes. "+
			"A class = codec family x behaviour observed (round trip held / kind changed / same or different data for a cut in a given record part); distinct cases are distinct by construction (seeded values) or by message id", 30)
	})
}
