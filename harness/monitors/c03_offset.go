package monitors

import (
	"context"
	"fmt"
	"log/slog"
	"math/rand/v2"
	"net"
	"net/netip"
	"strings"
	"sync"
	"time"

	"github.com/scionproto/scion/pkg/snet"

	"example.com/scion-time/core/client"
	"example.com/scion-time/net/udp"

	"verif/harness/internal/ev"
	"verif/harness/internal/peer"
)

// C03 — reported offset is within half the round-trip delay of the true offset.
// The real clients measure against a scripted, protocol-conformant server on loopback whose
// clock is offset by a per-exchange theta and which delays, drops, duplicates and replays
// responses. Kernel timestamps and the peer's clock readings come from the same machine
// clock, so causality (t0 <= server rx reading, server tx reading <= t3) needs no tolerance.

type c03Exch struct {
	idx      int
	theta    time.Duration
	r1, r2   time.Time // true clock readings at receive / just before send
	rx64     uint64    // reported receive timestamp
	tx64     uint64    // reported transmit timestamp of the reply itself (basic)
	trueTx64 uint64    // timestamp of r2+theta: what a later interleaved reply reports as transmit time
	inter    bool      // request was interleaved
	reqOrig  uint64
	answered string // basic | interleaved | dropped
	delayed  bool   // the answer reached the client only while its next request was under way
	server   int
}

type c03Spy struct {
	mu   sync.Mutex
	last [4]time.Time
	all  [][4]time.Time
	n    int
}

func (f *c03Spy) Do(t0, t1, t2, t3 time.Time) time.Duration {
	f.mu.Lock()
	f.last = [4]time.Time{t0, t1, t2, t3}
	f.all = append(f.all, f.last)
	if len(f.all) > 64 {
		f.all = f.all[len(f.all)-64:]
	}
	f.n++
	f.mu.Unlock()
	return (t1.Sub(t0) + t2.Sub(t3)) / 2
}
func (f *c03Spy) Reset() {}

type c03Srv struct {
	mu     sync.Mutex
	id     int
	rng    *rand.Rand
	exch   []*c03Exch
	all    *[]*c03Exch
	allMu  *sync.Mutex
	script func(n int) (theta time.Duration, fwd, back time.Duration, mode string)
	wrap   func(payload []byte, reqDg []byte) []byte
	unwrap func(b []byte) ([]byte, bool)
	oldest []byte // an old reply for stale replays
	held   []byte // a reply delayed in the network: it arrives while the client's next request is under way
}

func (s *c03Srv) handle(srv *peer.NTPServer, dg []byte, from netip.AddrPort, rx time.Time) {
	payload := dg
	if s.unwrap != nil {
		var ok bool
		if payload, ok = s.unwrap(dg); !ok {
			return
		}
	}
	f, ok := peer.ParseNTP(payload)
	if !ok {
		return
	}
	s.mu.Lock()
	n := len(s.exch)
	theta, fwd, back, mode := s.script(n)
	s.mu.Unlock()
	if fwd > 0 {
		time.Sleep(fwd) // forward network delay: the server's receive reading is taken late
	}
	e := &c03Exch{theta: theta, r1: time.Now(), inter: f.Origin != 0 && f.Receive != f.Transmit, reqOrig: f.Origin, server: s.id}
	e.rx64 = peer.ToNTP64(e.r1.Add(theta))
	s.allMu.Lock()
	e.idx = len(*s.all)
	*s.all = append(*s.all, e)
	s.allMu.Unlock()
	s.mu.Lock()
	s.exch = append(s.exch, e)
	// the earlier exchange an interleaved request refers to
	var ref *c03Exch
	if e.inter {
		for _, p := range s.exch {
			if p.rx64 == f.Origin && p != e {
				ref = p
			}
		}
	}
	s.mu.Unlock()
	send := func(b []byte) {
		if s.wrap != nil {
			b = s.wrap(b, dg)
		}
		srv.Send(from, b)
	}
	s.mu.Lock()
	held := s.held
	s.held = nil
	s.mu.Unlock()
	if held != nil {
		// the delayed reply to an earlier request reaches the client now (at the socket it is listening on)
		send(held)
	}
	if back > 0 {
		time.Sleep(back / 2) // processing time inside the server (part of t2-t1)
	}
	if mode == "stale-first" && s.oldest != nil && n%2 == 0 {
		send(s.oldest)
	} else if mode == "stale-first" {
		// a kiss-o'-death packet in front of the genuine reply: it echoes the request's transmit timestamp
		// but is no time sample (stratum 0, receive and transmit timestamps zero) — seed C03-l
		kod := peer.NTPFields{LVM: 0x24, Stratum: 0, Poll: f.Poll, Precision: -30, Origin: f.Transmit, RefID: 0x52415445}
		send(kod.Bytes())
	}
	fl := peer.NTPFields{LVM: 0x24, Stratum: 1, Poll: f.Poll, Precision: -30, Origin: f.Transmit, Receive: e.rx64}
	e.r2 = time.Now()
	e.trueTx64 = peer.ToNTP64(e.r2.Add(theta))
	e.tx64 = e.trueTx64
	fl.Transmit = e.tx64
	e.answered = "basic"
	if ref != nil && mode != "basic-only" && !strings.HasSuffix(mode, "delayed-basic") && ref.trueTx64 != 0 {
		fl.Origin, fl.Transmit = f.Receive, ref.trueTx64
		e.answered = "interleaved"
		e.tx64 = ref.trueTx64
	}
	if mode == "drop" {
		e.answered = "dropped"
		return
	}
	b := fl.Bytes()
	if mode == "turned-down-twice,delayed" || mode == "turned-down-twice,delayed-basic" {
		// two datagrams the client turns down (they echo nothing it sent) use up its one retry: the
		// attempt fails at once, not by its deadline, while the genuine reply is still under way
		junk := peer.NTPFields{LVM: 0x24, Stratum: 1, Precision: -30, Origin: peer.UniqueTime64(), Receive: fl.Receive, Transmit: fl.Transmit}
		send(junk.Bytes())
		junk.Origin = peer.UniqueTime64()
		send(junk.Bytes())
	}
	if strings.HasSuffix(mode, "delayed") || strings.HasSuffix(mode, "delayed-basic") {
		// delayed beyond the client's timeout: this call ends without an answer
		e.delayed = true
		s.mu.Lock()
		s.held = b
		s.mu.Unlock()
		return
	}
	send(b)
	if mode == "duplicate" {
		send(b)
	}
	if s.oldest == nil || n%7 == 0 {
		s.oldest = b
	}
}

type c03Rec struct {
	mu   sync.Mutex
	recs []map[string]any
}

func init() {
	registerChild("C03", "exploration", "plain", func(r *ev.Run) {
		registerScriptedRealClock()
		rng := r.Rng("c03")
		h := &recHandler{}
		log := slog.New(h)
		srvIP, srvIP2, cliIP := blockIP(r, 3, 1), blockIP(r, 3, 4), blockIP(r, 3, 2)
		var all []*c03Exch
		var allMu sync.Mutex
		thetaPool := []time.Duration{0, 1, -1, time.Millisecond, -time.Second, 37 * time.Second, -3600 * time.Second, 86400 * 365 * time.Second,
			-86400 * 365 * 20 * time.Second, 86400 * 365 * 15 * time.Second, (1<<31 - 1<<20) * time.Second, -(1<<31 - 1<<20) * time.Second}
		mkScript := func(kind int) func(n int) (time.Duration, time.Duration, time.Duration, string) {
			var cur time.Duration
			return func(n int) (time.Duration, time.Duration, time.Duration, string) {
				switch kind {
				case 0: // steady clock, no faults
					cur = 5 * time.Second
				case 1: // clock steps between exchanges
					if n%3 == 0 {
						cur = thetaPool[rng.IntN(len(thetaPool))]
					}
				default:
					cur = thetaPool[rng.IntN(len(thetaPool))] + time.Duration(rng.Int64N(1e9))
				}
				var fwd, back time.Duration
				if rng.IntN(3) == 0 {
					fwd = time.Duration(rng.Int64N(int64(4 * time.Millisecond)))
				}
				if rng.IntN(3) == 0 {
					back = time.Duration(rng.Int64N(int64(4 * time.Millisecond)))
				}
				mode := "normal"
				if kind >= 2 {
					mode = []string{"normal", "normal", "normal", "duplicate", "stale-first", "basic-only", "drop", "normal", "delayed", "delayed-basic", "turned-down-twice,delayed", "turned-down-twice,delayed-basic"}[rng.IntN(12)]
				}
				return cur, fwd, back, mode
			}
		}
		type leg struct {
			name    string
			inter   bool
			scion   bool
			measure func(ctx context.Context, srvIdx int) (time.Time, time.Duration, error)
		}
		nSeq := r.Pick(24, 1200)
		for _, scionLeg := range []bool{false, true} {
			for _, inter := range []bool{false, true} {
				name := map[bool]string{false: "ip", true: "scion"}[scionLeg] + map[bool]string{false: "-client", true: "-client(interleaved)"}[inter]
				for seq := 0; seq < nSeq; seq++ {
					id := fmt.Sprintf("%s.q%d", name, seq)
					if r.Only() != "" && r.Only() != id {
						continue
					}
					kind := seq % 4
					// two servers: the client alternates now and then (interleaved requests only to the same reference)
					srvs := make([]*c03Srv, 2)
					nsrvs := make([]*peer.NTPServer, 2)
					ok := true
					for i, ip := range []netip.Addr{srvIP, srvIP2} {
						s := &c03Srv{id: i, rng: rng, all: &all, allMu: &allMu, script: mkScript(kind)}
						if scionLeg {
							s.unwrap = func(b []byte) ([]byte, bool) {
								ps, err := peer.ParseSCION(b)
								if err != nil || !ps.HasUDP {
									return nil, false
								}
								return ps.UDP.Payload, true
							}
							host := ip
							s.wrap = func(payload []byte, reqDg []byte) []byte {
								ps, err := peer.ParseSCION(reqDg)
								if err != nil {
									return nil
								}
								srcH, _ := ps.SCION.SrcAddr()
								pkt := &peer.SCIONPkt{SrcIA: ps.SCION.DstIA, DstIA: ps.SCION.SrcIA, SrcHost: host, DstHost: srcH.IP(),
									SrcPort: ps.UDP.DstPort, DstPort: ps.UDP.SrcPort, Payload: payload}
								if rev, err := ps.SCION.Path.Reverse(); err == nil {
									pkt.Path = rev
								}
								b, _ := pkt.Serialize()
								return b
							}
						}
						ns, err := peer.NewNTPServer(netip.AddrPortFrom(ip, 0), s.handle)
						if err != nil {
							r.Inconclusive("bind: " + err.Error())
							ok = false
							break
						}
						srvs[i], nsrvs[i] = s, ns
					}
					if !ok {
						break
					}
					spy := &c03Spy{}
					var measure func(ctx context.Context, si int) (time.Time, time.Duration, error)
					if !scionLeg {
						c := &client.IPClient{Log: log, InterleavedMode: inter, Filter: spy}
						if seq%5 == 4 {
							c.Filter = nil
						}
						measure = func(ctx context.Context, si int) (time.Time, time.Duration, error) {
							return client.MeasureClockOffsetIP(ctx, log, c, &net.UDPAddr{IP: cliIP.AsSlice()}, net.UDPAddrFromAddrPort(nsrvs[si].Addr))
						}
					} else {
						c := &client.SCIONClient{Log: log, InterleavedMode: inter, Filter: spy}
						paths := []snet.Path{handPath(rng, c05LIA, c05RIA, nsrvs[0].Addr, 0), handPath(rng, c05LIA, c05XIA, nsrvs[1].Addr, 1)}
						hosts := []netip.Addr{srvIP, srvIP2}
						ias := []any{c05RIA, c05XIA}
						_ = ias
						measure = func(ctx context.Context, si int) (time.Time, time.Duration, error) {
							la := udp.UDPAddr{IA: c05LIA, Host: &net.UDPAddr{IP: cliIP.AsSlice()}}
							ra := udp.UDPAddr{IA: c05RIA, Host: &net.UDPAddr{IP: hosts[si].AsSlice(), Port: 10123}}
							if si == 1 {
								ra.IA = c05XIA
							}
							defer scionQuiesce()
							return client.MeasureClockOffsetSCION(ctx, log, []*client.SCIONClient{c}, la, ra, []snet.Path{paths[si]})
						}
					}
					nCalls := 5 + rng.IntN(12)
					si := 0
					for call := 0; call < nCalls; call++ {
						if kind == 3 && rng.IntN(4) == 0 {
							si = 1 - si
						}
						if inter && seq == 1 && call == 3 {
							// more than 3 s since the previous transmit: the next request must be a basic one
							time.Sleep(3200 * time.Millisecond)
							r.Class(name + ":pause>3s-before-request")
						}
						allMu.Lock()
						first := len(all)
						allMu.Unlock()
						h.take()
						spy.mu.Lock()
						spyBefore := spy.n
						spy.mu.Unlock()
						// failpoint (verif hook of net/udp): the kernel transmit timestamp of the request is not
						// delivered within the client's poll timeout; the client falls back on a clock reading
						lateTX := seq%3 == 2 && call%2 == 1
						if lateTX {
							udp.VerifLateTXTimestamps(1)
							r.Class(name + ":kernel transmit timestamp of the request not delivered in time")
						}
						tCall := time.Now()
						ctx, cancel := context.WithTimeout(context.Background(), 120*time.Millisecond)
						var off time.Duration
						var err error
						pnc := c02Recover(func() { _, off, err = measure(ctx, si) })
						cancel()
						udp.VerifLateTXTimestamps(0)
						tRet := time.Now()
						r.Eval(1)
						recs := h.take()
						allMu.Lock()
						exs := append([]*c03Exch{}, all[first:]...)
						hist := append([]*c03Exch{}, all...)
						allMu.Unlock()
						desc := func(e *c03Exch) string {
							return fmt.Sprintf("#%d srv%d theta=%v interleaved-req=%v answered=%s delayed=%v", e.idx, e.server, e.theta, e.inter, e.answered, e.delayed)
						}
						var ds []string
						for _, e := range exs {
							ds = append(ds, desc(e))
						}
						w := map[string]any{"client": name, "call": call, "server": si, "exchanges_of_this_call": ds, "offset": off.String(), "error": fmt.Sprint(err)}
						if pnc != nil {
							w["panic"] = fmt.Sprint(pnc)
							r.Violation(name+"|panic|measurement", id, w)
							break
						}
						// (d) interleaved requests only to the same reference and within 3 s of the previous transmit
						for _, e := range exs {
							if !e.inter {
								continue
							}
							var ref *c03Exch
							for _, p := range hist {
								if p.rx64 == e.reqOrig && p.server == e.server && p.idx < e.idx {
									ref = p
								}
							}
							if ref == nil {
								w["request"] = desc(e)
								r.Violation(name+"|wrong-value:interleaved request refers to timestamps of another reference or of no earlier reply", id, w)
							} else if e.r1.Sub(ref.r1) > 3*time.Second+50*time.Millisecond {
								r.Violation(name+"|wrong-value:interleaved request more than 3 s after the previous exchange", id, w)
							} else {
								r.Class(name + ":interleaved-request-to-same-reference")
							}
						}
						if err != nil {
							r.Class(name + ":call-failed(" + map[bool]string{true: "all responses dropped", false: "other"}[allDropped(exs)] + ")")
							continue
						}
						// which evaluated response produced the result?
						// (a measurement goroutine of an earlier, timed-out SCION call may still log after that call
						// returned: the record of this call is the one that carries the returned offset)
						var evRec map[string]any
						for _, rc := range recs {
							if rc["msg"] == "evaluated response" {
								if o, _ := rc["clock offset"].(time.Duration); o == off || evRec == nil {
									evRec = rc
								}
							}
						}
						if evRec == nil {
							r.Violation(name+"|wrong-value:success without an evaluated response", id, w)
							continue
						}
						lOff, _ := evRec["clock offset"].(time.Duration)
						lRtd, _ := evRec["round trip delay"].(time.Duration)
						lInter, _ := evRec["interleaved"].(bool)
						w["logged_offset"], w["logged_rtd"], w["logged_interleaved"] = lOff.String(), lRtd.String(), lInter
						if lOff != off {
							r.Violation(name+"|wrong-value:returned offset differs from the evaluated one", id, w)
							continue
						}
						spy.mu.Lock()
						ts := spy.last
						for _, cand := range spy.all { // the filter call whose result is the returned offset
							if (cand[1].Sub(cand[0])+cand[2].Sub(cand[3]))/2 == off {
								ts = cand
							}
						}
						spyN := spy.n
						spy.mu.Unlock()
						var j *c03Exch
						if spyN > spyBefore {
							// (a) the four timestamps belong to one exchange
							t1, t2 := peer.ToNTP64(ts[1]), peer.ToNTP64(ts[2])
							near := func(a, b uint64) bool { d := int64(a - b); return d >= -8 && d <= 8 }
							for _, e := range hist {
								if near(e.rx64, t1) && (near(e.tx64, t2) && e.answered == "basic" || near(e.trueTx64, t2)) {
									j = e
								}
							}
							if j == nil {
								w["t1"], w["t2"] = ts[1].String(), ts[2].String()
								r.Violation(name+"|wrong-value:server timestamps combined do not belong to one exchange", id, w)
								continue
							}
							rtd := ts[3].Sub(ts[0]) - ts[2].Sub(ts[1])
							w["exchange_used"] = desc(j)
							// (c) causality on the common clock
							if ts[0].After(j.r1.Add(2)) || ts[3].Before(j.r2.Add(-3)) {
								w["t0"], w["r1"], w["r2"], w["t3"] = ts[0].String(), j.r1.String(), j.r2.String(), ts[3].String()
								r.Violation(name+"|wrong-value:client timestamps do not bracket the server's readings of that exchange", id, w)
								continue
							}
							// the response of exchange j was received before the client sent its next request
							for _, nx := range hist {
								if nx.idx > j.idx {
									if ts[3].After(nx.r1.Add(2)) {
										w["t3"], w["next_request_seen_at"] = ts[3].String(), nx.r1.String()
										r.Violation(name+"|wrong-value:receive timestamp combined with this exchange was taken after the next request had been sent", id, w)
									}
									break
								}
							}
							if ts[0].Before(tCall.Add(-4*time.Second)) || ts[3].After(tRet.Add(time.Millisecond)) {
								r.Violation(name+"|wrong-value:client timestamps outside the lifetime of the exchange", id, w)
								continue
							}
							// (b) the bound
							diff := off - j.theta
							if diff < 0 {
								diff = -diff
							}
							if rtd < 0 || diff > rtd/2+4 {
								w["rtd"], w["theta"], w["deviation"] = rtd.String(), j.theta.String(), diff.String()
								r.Violation(name+"|wrong-value:offset differs from the true offset by more than half the round-trip delay", id, w)
								continue
							}
							if lRtd != rtd {
								r.Violation(name+"|wrong-value:logged round-trip delay differs from the timestamps combined", id, w)
							}
						} else {
							// no spy filter: the exchange is identified through the logged mode
							cands := exs
							if lInter {
								cands = hist
							}
							okc := false
							for _, e := range cands {
								d := off - e.theta
								if d < 0 {
									d = -d
								}
								if d <= lRtd/2+4 && lRtd >= 0 {
									okc, j = true, e
								}
							}
							if !okc {
								r.Violation(name+"|wrong-value:offset differs from the true offset by more than half the round-trip delay", id, w)
								continue
							}
						}
						cls := name + ":" + map[bool]string{true: "interleaved", false: "basic"}[lInter] + "-result"
						if j != nil && (j.theta > 86400*365*10*time.Second || j.theta < -86400*365*10*time.Second) {
							cls += ",server-clock-decades-away"
						}
						r.Class(cls)
						if len(exs) > 1 {
							r.Class(name + ":several-exchanges-in-one-call")
						}
						r.Distinct(fmt.Sprint(name, kind, lInter, len(exs), allAnswers(exs)))
						if seq == 0 && call < 2 {
							r.Sample(w)
						}
					}
					for _, ns := range nsrvs {
						ns.Close()
					}
					if r.NumViolations() > 6 {
						break
					}
				}
			}
		}
		// the clients against the repository's own request handler and store (own process: its clock tells
		// the handler's readings from the clients'): a delayed duplicate of an interleaved request after the
		// receive timestamp it names has been issued again
		if r.Only() == "" || r.Only() == "reissued-rx" {
			if o := r.RunLeg("plain", "c03reissue", 2*time.Minute, nil); !o.OK {
				r.Class("reissued-rx:leg did not finish")
			}
		}
		// the IP client with a coarse clock (own process), kernel transmit timestamps late, every response
		// duplicated in front of (or behind) the next one, server clock stepped after every exchange
		if r.Only() == "" || r.Only() == "coarse-clock" {
			if o := r.RunLeg("plain", "c03coarse", 3*time.Minute, nil); !o.OK {
				r.Class("coarse-clock:leg did not finish")
			}
		}
		r.Assume("loopback with kernel software timestamps; the scripted server reads the same machine clock, so causality between client and server readings holds without tolerance beyond NTP-timestamp truncation (a few ns)")
		r.Assume("the client's clock before 2036 (era 0) while server clocks range +-68 years; the mirror case is decided at function level by C04")
		r.Finish("sequences of 5..16 measurements per client (IP and SCION, interleaved mode off/on, spy filter or none) against two scripted servers: per exchange a server clock offset from a pool (0, +-1 ns, ms, s, hours, years, +-(2^31-2^20) s) or random, clock steps between exchanges, "+
			"forward and processing delays up to 4 ms, duplicated responses, stale replays before the genuine response, basic replies to interleaved requests, dropped responses, and switching between the two servers. Oracle: the four timestamps handed to the filter belong to one recorded exchange; "+
			"t0 <= server receive reading and server transmit reading <= t3; |offset - theta| <= rtd/2 (+4 ns); interleaved requests refer to a reply of the same server not older than 3 s. distinct_nontrivial = distinct (client, script kind, result mode, exchanges per call, answers) tuples", 8)
	})
}

func allDropped(exs []*c03Exch) bool {
	for _, e := range exs {
		if e.answered != "dropped" {
			return false
		}
	}
	return true
}

func allAnswers(exs []*c03Exch) string {
	s := ""
	for _, e := range exs {
		if e.answered == "" { // still being handled when the call returned
			s += "?"
			continue
		}
		s += e.answered[:1]
	}
	return s
}
