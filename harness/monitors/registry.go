// Package monitors holds one runtime monitor per property.
package monitors

import (
	"bytes"
	"fmt"
	"os"
	"os/exec"
	"runtime"
	"strings"
	"sync"
	"time"

	"verif/harness/internal/ev"
)

type Monitor struct {
	ID    string
	Level string
	Run   func(r *ev.Run)
}

var Registry = map[string]*Monitor{}

// Legs are entry points executed in child processes (self re-exec).
var Legs = map[string]func(args []string){}

func register(id, level string, run func(r *ev.Run)) {
	Registry[id] = &Monitor{ID: id, Level: level, Run: run}
}

// parallel runs fn(worker, i) for i in [0,n) on all cores.
func parallel(n int, fn func(w, i int)) {
	nw := runtime.GOMAXPROCS(0)
	if nw > n {
		nw = n
	}
	if nw < 1 {
		nw = 1
	}
	var wg sync.WaitGroup
	next := make(chan int, 4*nw)
	for w := 0; w < nw; w++ {
		wg.Add(1)
		go func(w int) {
			defer wg.Done()
			for i := range next {
				fn(w, i)
			}
		}(w)
	}
	for i := 0; i < n; i++ {
		next <- i
	}
	close(next)
	wg.Wait()
}

// registerChild registers a monitor whose whole body runs in a child process of the given
// build variant: real clients run goroutines of their own, so a panic there cannot be
// recovered in-process; the parent turns a dead child into a verdict.
func registerChild(id, level, variant string, body func(r *ev.Run)) {
	Legs[id+"main"] = func(args []string) {
		r := ev.NewLeg(id)
		body(r)
		r.FinishLeg()
	}
	register(id, level, func(r *ev.Run) {
		var env []string
		if r.Only() != "" {
			env = append(env, "VERIF_ONLY="+r.Only())
		}
		o := r.RunLeg(variant, id+"main", 90*time.Minute, env)
		r.CrashViolation(o, id+" monitor process")
		rule, floor := r.LegRule()
		if !o.OK {
			rule, floor = "the monitor's child process died; see the violation or the inconclusive reason", 0
		}
		r.Finish(rule, floor)
	})
}

// scionQuiesce waits until no goroutine is inside the SCION client's measurement any more.
// MeasureClockOffsetSCION returns at its deadline while the per-path goroutines it started end a
// moment later (they leave through the same deadline on their sockets); the time service starts
// its next round at least half an interval later, a monitor that calls back to back must not
// overlap them with the next call on the same client.  Bounded by 3 s (then it gives up waiting).
func scionQuiesce() {
	buf := make([]byte, 1<<20)
	for i := 0; i < 3000; i++ {
		n := runtime.Stack(buf, true)
		if !bytes.Contains(buf[:n], []byte(").measureClockOffsetSCION(")) {
			return
		}
		time.Sleep(time.Millisecond)
	}
}

// runMainLeg runs a leg of the monitors that lives inside the service's own package (see
// harness/mainleg): the test binary of package main, built by the check script with the leg's file
// laid over the repository, is run with VERIF_MAINLEG=name and its report merged into r.
func runMainLeg(r *ev.Run, name string, extraEnv ...string) {
	bin := os.Getenv("VERIF_MAIN_TEST")
	if bin == "" {
		r.Set("main_package_leg:"+name, "not run: the service's test binary was not built")
		return
	}
	cmd := exec.Command(bin, "-test.run", "TestVerifMainLeg", "-test.timeout", "120s")
	cmd.Env = append(append(os.Environ(), "VERIF_MAINLEG="+name), extraEnv...)
	out, err := cmd.CombinedOutput()
	done := false
	for _, ln := range strings.Split(string(out), "\n") {
		switch {
		case strings.HasPrefix(ln, "MAINLEG VIOL "):
			sig, detail, _ := strings.Cut(strings.TrimPrefix(ln, "MAINLEG VIOL "), "\t")
			r.Violation(sig, "main:"+name, map[string]any{"detail": detail})
		case strings.HasPrefix(ln, "MAINLEG CLASS "):
			r.Class("service wiring: " + strings.TrimPrefix(ln, "MAINLEG CLASS "))
		case strings.HasPrefix(ln, "MAINLEG EVAL "):
			var n int64
			fmt.Sscan(strings.TrimPrefix(ln, "MAINLEG EVAL "), &n)
			r.Eval(n)
		case strings.HasPrefix(ln, "MAINLEG INCONCLUSIVE "):
			r.Inconclusive("leg " + name + " inside the service's own package: " + strings.TrimPrefix(ln, "MAINLEG INCONCLUSIVE "))
		case ln == "MAINLEG DONE":
			done = true
		}
	}
	if !done {
		tail := string(out)
		if len(tail) > 1500 {
			tail = tail[len(tail)-1500:]
		}
		if strings.Contains(tail, "panic:") {
			r.Violation("timeservice|panic|leg inside the service's own package: "+name, "main:"+name, map[string]any{"output": tail})
		} else {
			r.Inconclusive(fmt.Sprintf("leg %s inside the service's own package did not finish: %v %s", name, err, tail))
		}
	}
}
