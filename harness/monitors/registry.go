// Package monitors holds one runtime monitor per property.
package monitors

import (
	"runtime"
	"sync"

	"verif/harness/internal/ev"
)

type Monitor struct {
	ID    string
	Level string
	Run   func(r *ev.Run)
}

var Registry = map[string]*Monitor{}

// Legs are entry points executed in child processes (self re-exec).
var Legs = map[string]func(args []string){}

func register(id, level string, run func(r *ev.Run)) {
	Registry[id] = &Monitor{ID: id, Level: level, Run: run}
}

// parallel runs fn(worker, i) for i in [0,n) on all cores.
func parallel(n int, fn func(w, i int)) {
	nw := runtime.GOMAXPROCS(0)
	if nw > n {
		nw = n
	}
	if nw < 1 {
		nw = 1
	}
	var wg sync.WaitGroup
	next := make(chan int, 4*nw)
	for w := 0; w < nw; w++ {
		wg.Add(1)
		go func(w int) {
			defer wg.Done()
			for i := range next {
				fn(w, i)
			}
		}(w)
	}
	for i := 0; i < n; i++ {
		next <- i
	}
	close(next)
	wg.Wait()
}
