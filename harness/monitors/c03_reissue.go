package monitors

// C03, end to end with the repository's own request handler: a delayed duplicate of an interleaved
// request names a receive timestamp that has left the server's store and has been issued again
// (server clock set back between exchanges) to another sender with the same client identity.
// Found by audit round 5 (audit5/C03/d1); recorded as known finding K2, see DESIGN.md section 9.
//
// The real IPClient talks over loopback to a listener that is the loop body of runIPServer
// (VerifHandleRequest, send, VerifUpdateTXTimestamp) with a scripted server clock (client clock +
// theta, theta changes between exchanges only) and that plays the network faults of the history.

import (
	"context"
	"fmt"
	"log/slog"
	"net"
	"net/netip"
	"runtime"
	"strings"
	"sync"
	"sync/atomic"
	"time"

	"example.com/scion-time/core/client"
	"example.com/scion-time/core/server"
	"example.com/scion-time/core/timebase"
	"example.com/scion-time/net/ntp"

	"verif/harness/internal/ev"
)

var c03rTheta atomic.Int64

// c03rClock is the client's clock for everybody but the server's request handler, which reads the
// server's clock (both live in this process).
type c03rClock struct{}

func (c03rClock) Epoch() uint64 { return 0 }
func (c03rClock) Now() time.Time {
	var pcs [16]uintptr
	n := runtime.Callers(2, pcs[:])
	fr := runtime.CallersFrames(pcs[:n])
	for {
		f, more := fr.Next()
		if strings.HasSuffix(f.Function, "server.handleRequest") {
			return time.Now().UTC().Add(time.Duration(c03rTheta.Load()))
		}
		if !more {
			break
		}
	}
	return time.Now().UTC()
}
func (c03rClock) Drift(time.Duration) time.Duration            { return 0 }
func (c03rClock) Step(time.Duration)                           { panic("not used") }
func (c03rClock) Adjust(time.Duration, time.Duration, float64) { panic("not used") }
func (c03rClock) Sleep(d time.Duration)                        { time.Sleep(d) }

type c03rRec struct {
	mu  sync.Mutex
	all [][4]time.Time
}

func (r *c03rRec) Do(t0, t1, t2, t3 time.Time) time.Duration {
	r.mu.Lock()
	r.all = append(r.all, [4]time.Time{t0, t1, t2, t3})
	r.mu.Unlock()
	return ntp.ClockOffset(t0, t1, t2, t3)
}
func (r *c03rRec) Reset() {}

func init() {
	Legs["c03reissue"] = func(args []string) {
		r := ev.NewLeg("C03")
		timebase.RegisterClock(c03rClock{})
		for attempt := 0; attempt < 3; attempt++ {
			if c03rOnce(r, attempt) {
				break
			}
		}
		r.FinishLeg()
	}
}

// c03rOnce plays the history once; it returns true when the history played out (whatever the verdict).
func c03rOnce(r *ev.Run, attempt int) bool {
	log := slog.New(slog.DiscardHandler)
	srvIP := net.IPv4(127, 0, 0, 1)
	conn, err := net.ListenUDP("udp", &net.UDPAddr{IP: srvIP})
	if err != nil {
		r.Class("reissued-rx:no socket")
		return false
	}
	defer conn.Close()
	srvPort := conn.LocalAddr().(*net.UDPAddr).Port
	cid := fmt.Sprintf("c03r-%d", attempt)

	const theta1 = 5 * time.Second
	const procA2 = 20 * time.Millisecond
	var (
		mu         sync.Mutex
		rA1        time.Time
		rA164      ntp.Time64
		_, _       = rA1, rA164
		txA1, txA2 ntp.Time64
		theta2     time.Duration
		notes      []string
	)
	note := func(s string) { mu.Lock(); notes = append(notes, s); mu.Unlock() }
	startClient2 := make(chan struct{})
	var once sync.Once

	serve := func(req *ntp.Packet, src netip.AddrPort, rxt time.Time, theta, proc time.Duration, send bool) (ntp.Packet, time.Time) {
		c03rTheta.Store(int64(theta))
		var txt0 time.Time
		var resp ntp.Packet
		server.VerifHandleRequest(cid, req, &rxt, &txt0, &resp)
		time.Sleep(proc) // the server is busy
		buf := make([]byte, ntp.PacketLen)
		ntp.EncodePacket(&buf, &resp)
		txt1 := time.Now().UTC().Add(theta) // "kernel" transmit timestamp: when the reply leaves
		if send {
			_, _ = conn.WriteToUDPAddrPort(buf, src)
		}
		server.VerifUpdateTXTimestamp(cid, rxt, txt0, &txt1)
		return resp, rxt
	}
	recTx := func(rx ntp.Time64) ntp.Time64 {
		recs, _, _ := server.VerifSnapshot(cid)
		for _, rc := range recs {
			if rc.RX == rx {
				return rc.TX
			}
		}
		note("no record under the receive timestamp of the reply")
		return ntp.Time64{}
	}
	set := func(f func()) { mu.Lock(); f(); mu.Unlock() }
	go func() {
		buf := make([]byte, 2048)
		var dupB1 ntp.Packet
		var dupB1Src netip.AddrPort
		var a1rx time.Time
		var a1rx64 ntp.Time64
		i := 0
		for {
			n, src, err := conn.ReadFromUDPAddrPort(buf)
			if err != nil {
				return
			}
			now := time.Now().UTC()
			var req ntp.Packet
			if ntp.DecodePacket(&req, buf[:n]) != nil {
				continue
			}
			i++
			switch i {
			case 1: // A1: basic request of client 1
				resp, rx := serve(&req, src, now.Add(theta1), theta1, 0, true)
				a1rx, a1rx64 = rx, resp.ReceiveTime
				t := recTx(resp.ReceiveTime)
				set(func() { rA1, rA164, txA1 = rx, resp.ReceiveTime, t })
			case 2: // B1: interleaved follow-up of client 1, duplicated by the network; the reply to the first copy is lost
				if req.OriginTime != a1rx64 {
					note("second request is not the interleaved follow-up of the first")
				}
				dupB1, dupB1Src = req, src
				serve(&req, src, now.Add(theta1), theta1, 0, false)
				once.Do(func() { close(startClient2) })
			case 3: // A2: basic request of a second sender with the same identity; the server's clock was set back
				// between the exchanges and reads A1's receive time again; A1's record left the store with B1
				th := a1rx.Sub(now)
				resp, _ := serve(&req, src, a1rx, th, procA2, true)
				if resp.ReceiveTime != a1rx64 {
					note("the third request was not recorded under the first one's receive timestamp")
				}
				t := recTx(resp.ReceiveTime)
				set(func() { theta2, txA2 = th, t })
				// now the second copy of B1 arrives
				now = time.Now().UTC()
				serve(&dupB1, dupB1Src, now.Add(th), th, 0, true)
			}
		}
	}()

	laddr := &net.UDPAddr{IP: srvIP}
	rec1, rec2 := &c03rRec{}, &c03rRec{}
	c1 := &client.IPClient{Log: log, InterleavedMode: true, Filter: rec1}
	c2 := &client.IPClient{Log: log, InterleavedMode: false, Filter: rec2}
	var wg sync.WaitGroup
	var off1 time.Duration
	var err1, err2 error
	wg.Add(2)
	go func() {
		defer wg.Done()
		ctx, cancel := context.WithTimeout(context.Background(), 3*time.Second)
		defer cancel()
		_, off1, err1 = client.MeasureClockOffsetIP(ctx, log, c1, laddr, &net.UDPAddr{IP: srvIP, Port: srvPort})
	}()
	go func() {
		defer wg.Done()
		select {
		case <-startClient2:
		case <-time.After(3 * time.Second):
			err2 = context.DeadlineExceeded
			return
		}
		ctx, cancel := context.WithTimeout(context.Background(), 3*time.Second)
		defer cancel()
		_, _, err2 = client.MeasureClockOffsetIP(ctx, log, c2, laddr, &net.UDPAddr{IP: srvIP, Port: srvPort})
	}()
	wg.Wait()
	r.Eval(3)
	mu.Lock()
	defer mu.Unlock()
	rec1.mu.Lock()
	defer rec1.mu.Unlock()
	if err1 != nil || err2 != nil || len(rec1.all) != 2 || len(notes) > 0 {
		// the history did not play out (e.g. the duplicate was refused, or the receive timestamp was not issued
		// again): nothing to judge
		r.Class("reissued-rx:history did not play out")
		return len(notes) > 0
	}
	a, b := rec1.all[0], rec1.all[1]
	ref := time.Now()
	wantT2 := ntp.TimeFromTime64(txA1, ref).UnixNano()
	rtdA1 := ntp.RoundTripDelay(a[0], a[1], a[2], a[3])
	errOff := (off1 - theta1).Abs()
	if b[2].UnixNano() != wantT2 || errOff > rtdA1/2+2 {
		r.Violation("ip-client+request-handler(interleaved)|wrong-value:timestamps of two exchanges combined: the delayed duplicate of an interleaved request was answered from a later exchange recorded under the re-issued receive timestamp", "reissued-rx",
			map[string]any{"history": "client 1: basic A1 (server rx R), interleaved B1 duplicated, reply to the first copy lost; server clock set back, second sender with the same identity: basic A2 recorded under R again, server busy 20 ms; second copy of B1 answered from A2's record",
				"client1_offset_ns": int64(off1), "true_offset_ns": int64(theta1), "error_ns": int64(off1 - theta1), "round_trip_of_A1_ns": int64(rtdA1),
				"t2_used": b[2].UnixNano(), "t2_of_reply_to_A1": wantT2, "t2_of_reply_to_A2": ntp.TimeFromTime64(txA2, ref).UnixNano(), "server_clock_set_back_by_ns": int64(theta1 - theta2)})
	} else {
		r.Class("reissued-rx:duplicate of an interleaved request evaluated with the timestamps of its own exchange")
	}
	return true
}
