package monitors

import (
	"context"
	"fmt"
	"log/slog"
	"math"
	"math/big"
	"math/rand/v2"
	"sort"
	"sync/atomic"
	"time"

	"example.com/scion-time/core/client"
	"example.com/scion-time/core/measurements"
	"example.com/scion-time/core/timebase"
	"example.com/scion-time/net/ntp"

	"verif/harness/internal/ev"
)

// C17 — offset filters implement their selection rule and reset cleanly.
//
// The real LuckyPacketFilter and NtimedFilter are fed seeded histories of
// (cTx, sRx, sTx, cRx) samples.  The oracle is derived from the property text:
//   - lucky: median offset of the k lowest-rtd samples among the last N
//     (independent reference model, rtds distinct inside every window);
//   - ntimed: raw offset (sign, float tolerance) for samples 1..3 after
//     creation/Reset/epoch change, for every sample that dominates all samples
//     seen since the reset (hence lies inside any learned bounds) and for every
//     sample the filter itself logs as inside its limits; and bit-identical
//     outputs after Reset/epoch change compared with a fresh instance.

// ---- fake registered clock (only Epoch matters to the filters)

type c17Clock struct{ epoch atomic.Uint64 }

func (c *c17Clock) Epoch() uint64                                { return c.epoch.Load() }
func (c *c17Clock) Now() time.Time                               { return time.Unix(1700000000, 0).UTC() }
func (c *c17Clock) Drift(time.Duration) time.Duration            { return 0 }
func (c *c17Clock) Step(time.Duration)                           {}
func (c *c17Clock) Adjust(time.Duration, time.Duration, float64) {}
func (c *c17Clock) Sleep(time.Duration)                          {}

// ---- samples and operations

type c17Sample struct {
	CTx int64 `json:"cTx_unix_ns"`
	SRx int64 `json:"sRx_unix_ns"`
	STx int64 `json:"sTx_unix_ns"`
	CRx int64 `json:"cRx_unix_ns"`
}

func (s c17Sample) times() (a, b, c, d time.Time) {
	return time.Unix(0, s.CTx).UTC(), time.Unix(0, s.SRx).UTC(), time.Unix(0, s.STx).UTC(), time.Unix(0, s.CRx).UTC()
}

// c17Mk builds a sample from the client transmit time, the true offset theta
// (server minus client), the two one-way delays and the server processing time.
func c17Mk(cTx, theta, d1, d2, proc int64) c17Sample {
	sRx := cTx + theta + d1
	sTx := sRx + proc
	cRx := sTx - theta + d2
	return c17Sample{cTx, sRx, sTx, cRx}
}

// c17Raw is the raw offset of a sample, ((sRx-cTx)+(sTx-cRx))/2 truncated toward zero, computed
// without the code under test and without intermediate overflow.
func c17Raw(s c17Sample) int64 {
	a := new(big.Int).Sub(big.NewInt(s.SRx), big.NewInt(s.CTx))
	b := new(big.Int).Sub(big.NewInt(s.STx), big.NewInt(s.CRx))
	a.Add(a, b)
	a.Quo(a, big.NewInt(2))
	return a.Int64()
}

type c17Op struct {
	Kind  string     `json:"op"` // "sample" | "reset" | "epoch"
	S     *c17Sample `json:"sample,omitempty"`
	Epoch uint64     `json:"new_epoch,omitempty"`
}

const c17Base = int64(1700000000) * 1e9

func c17LogU(rng *rand.Rand, lo, hi int64) int64 {
	if lo < 1 {
		lo = 1
	}
	if hi <= lo {
		return lo
	}
	x := math.Exp(math.Log(float64(lo)) + rng.Float64()*(math.Log(float64(hi))-math.Log(float64(lo))))
	v := int64(x)
	if v < lo {
		v = lo
	}
	if v > hi {
		v = hi
	}
	return v
}

func c17Sign(rng *rand.Rand) int64 {
	if rng.IntN(2) == 0 {
		return -1
	}
	return 1
}

func c17AbsDiff(a, b int64) uint64 {
	if a >= b {
		return uint64(a) - uint64(b)
	}
	return uint64(b) - uint64(a)
}

type c17Classes map[string]int64

var c17LogUsable atomic.Int64 // Ntimed debug records that could be used as observations

func (c c17Classes) flush(r *ev.Run) {
	for k, n := range c {
		r.ClassN(k, n)
	}
	c17LogUsable.Add(c["ntimed:log-record-usable"])
}

func c17Try(f func()) (p any) {
	defer func() { p = recover() }()
	f()
	return nil
}

// =====================================================================
// Lucky-packet filter
// =====================================================================

type c17LuckyCfg struct {
	Zero bool `json:"zero_value"`
	Cap  int  `json:"cap"`
	Pick int  `json:"pick"`
}

func (c c17LuckyCfg) class() string {
	switch {
	case c.Zero:
		return "zero-value"
	case c.Pick > c.Cap:
		return "pick>cap"
	case c.Pick == c.Cap:
		return "pick=cap"
	case c.Pick == 1:
		return "pick=1<cap"
	default:
		return "1<pick<cap"
	}
}

func c17GenLucky(rng *rand.Rand) []c17Op {
	var n int
	switch rng.IntN(4) {
	case 0:
		n = 1 + rng.IntN(14)
	case 1:
		n = 1 + rng.IntN(200)
	default:
		n = 1 + rng.IntN(40)
	}
	thetaMode := rng.IntN(6)
	rtdMode := rng.IntN(4)
	negRTD := rng.IntN(6) == 0
	hugeTheta, hugeSign, hugeMixed := rng.IntN(12) == 0, c17Sign(rng), rng.IntN(3) == 0
	pReset := []float64{0, 0, 0.02, 0.1}[rng.IntN(4)]
	theta0 := c17Sign(rng) * c17LogU(rng, 1, 1e18)
	rtdBase := c17LogU(rng, 2000, 1e9)
	seen := map[int64]bool{}
	ops := make([]c17Op, 0, n+4)
	t := c17Base + rng.Int64N(1e9)
	mono := c17Sign(rng)
	// the client's clock is set back between exchanges in some histories: the last N samples are the
	// last N that arrived, whatever their transmit timestamps say
	setBack := rng.IntN(4) == 0
	for i := 0; i < n; i++ {
		if rng.Float64() < pReset {
			ops = append(ops, c17Op{Kind: "reset"})
		}
		var rtd int64
		switch rtdMode {
		case 0: // tight: differ by a few ns
			rtd = rtdBase + rng.Int64N(int64(4*n)+4)
		case 1:
			rtd = c17LogU(rng, 2000, 2e10)
		case 2: // monotone: the oldest or the newest sample of a window is the luckiest
			rtd = rtdBase + mono*int64(i)*(1+rng.Int64N(3))
			if rtd < 2000 {
				rtd = 2000 + int64(i)
			}
		default: // jitter with spikes
			rtd = rtdBase + rng.Int64N(rtdBase/10+1)
			if rng.IntN(4) == 0 {
				rtd += c17LogU(rng, rtdBase, 1e10)
			}
		}
		for seen[rtd] {
			rtd++
		}
		seen[rtd] = true
		negative := negRTD && rng.IntN(2) == 0 // coarse or stepped clocks: the computed delay is negative (and still distinct)
		if negative {
			rtd = -rtd
		}
		var theta int64
		switch thetaMode {
		case 0:
			theta = theta0
		case 1:
			theta = rng.Int64N(11) - 5
		case 2:
			theta = c17Sign(rng) * c17LogU(rng, 1, 1e18)
		case 3:
			theta = theta0 + rng.Int64N(2000001) - 1000000
		case 4: // offset ordered like the delay
			theta = rtd
		default: // offset ordered against the delay
			theta = -rtd
		}
		if hugeTheta {
			if hugeMixed {
				hugeSign = c17Sign(rng)
			}
			// offsets between 2^62 ns (146 years) and 7e18 ns: the offset and every difference of two
			// timestamps fit into int64 nanoseconds, twice the offset does not
			theta = hugeSign * ((int64(1) << 62) + rng.Int64N(7e18-(1<<62)))
			if rng.IntN(5) == 0 {
				theta = hugeSign * ((int64(1) << 62) - 2 + rng.Int64N(5))
			}
		}
		d1 := rtd / 2
		switch {
		case negative:
		case rng.IntN(3) == 0:
			d1 = rng.Int64N(rtd + 1)
		case rng.IntN(2) == 0:
			d1 = rtd/2 + rng.Int64N(3) - 1
		}
		d2 := rtd - d1
		proc := c17LogU(rng, 1, 1e8)
		if negative {
			proc += -rtd // the response still arrives after the request left
		}
		s := c17Mk(t, theta, d1, d2, proc)
		ops = append(ops, c17Op{Kind: "sample", S: &s})
		t += c17LogU(rng, 1e6, 64e9)
		if setBack && rng.IntN(3) == 0 {
			t -= c17LogU(rng, 1e6, 512e9)
		}
	}
	return ops
}

type c17Ref struct{ off, rtd int64 }

// c17LuckyWant returns the acceptable output range [lo,hi] for the current
// window: the median offset of the k lowest-rtd samples (even count: the
// midpoint of the two middle offsets, either rounding).
func c17LuckyWant(win []c17Ref, k int) (lo, hi int64, even bool) {
	sel := append([]c17Ref(nil), win...)
	sort.Slice(sel, func(a, b int) bool { return sel[a].rtd < sel[b].rtd })
	if k < len(sel) {
		sel = sel[:k]
	}
	sort.Slice(sel, func(a, b int) bool { return sel[a].off < sel[b].off })
	m := len(sel)
	if m%2 == 1 {
		return sel[m/2].off, sel[m/2].off, false
	}
	a, b := big.NewInt(sel[m/2-1].off), big.NewInt(sel[m/2].off)
	sum := new(big.Int).Add(a, b)
	fl := new(big.Int).Div(sum, big.NewInt(2)) // Euclidean = floor for positive divisor
	ce := new(big.Int).Set(fl)
	if sum.Bit(0) == 1 {
		ce.Add(ce, big.NewInt(1))
	}
	return fl.Int64(), ce.Int64(), true
}

func c17RunLucky(r *ev.Run, id string, cfg c17LuckyCfg, ops []c17Op, cls c17Classes) (evals int64) {
	var f measurements.Filter
	if cfg.Zero {
		f = &client.LuckyPacketFilter{}
	} else {
		f = client.NewLuckyPacketFilter(cfg.Cap, cfg.Pick)
	}
	n := cfg.Cap
	k := min(cfg.Pick, cfg.Cap)
	var win []c17Ref
	afterReset := false
	witness := func(upto int, detail any) any {
		return map[string]any{"filter": "LuckyPacketFilter", "config": cfg, "history": ops[:upto+1], "detail": detail}
	}
	for i, op := range ops {
		if op.Kind == "reset" {
			if p := c17Try(func() { f.Reset() }); p != nil {
				r.Violation("LuckyPacketFilter.Reset|panic|"+cfg.class(), id, witness(i, fmt.Sprint(p)))
				return
			}
			win = win[:0]
			afterReset = true
			continue
		}
		t0, t1, t2, t3 := op.S.times()
		raw := c17Raw(*op.S)
		rtd := int64(ntp.RoundTripDelay(t0, t1, t2, t3))
		var got time.Duration
		if p := c17Try(func() { got = f.Do(t0, t1, t2, t3) }); p != nil {
			r.Violation("LuckyPacketFilter.Do|panic|"+cfg.class(), id, witness(i, fmt.Sprint(p)))
			return
		}
		evals++
		if cfg.Zero {
			cls["lucky:zero-value"]++
			if int64(got) != raw {
				r.Violation("LuckyPacketFilter.Do|wrong-value:unconfigured filter must return the raw offset|zero-value", id,
					witness(i, map[string]any{"got": int64(got), "raw_offset": raw}))
				return
			}
			continue
		}
		win = append(win, c17Ref{raw, rtd})
		if len(win) > n {
			win = win[1:]
			cls["lucky:window-full-shift"]++
		} else {
			cls["lucky:window-filling"]++
		}
		lo, hi, even := c17LuckyWant(win, k)
		cls["lucky:"+cfg.class()]++
		if even {
			cls["lucky:even-median"]++
		} else {
			cls["lucky:odd-median"]++
		}
		if afterReset {
			cls["lucky:after-reset"]++
		}
		if k < len(win) {
			cls["lucky:selection-drops-samples"]++
		}
		if int64(got) < lo || int64(got) > hi {
			ic := cfg.class()
			if afterReset {
				ic += ",after-reset"
			}
			w := make([][2]int64, len(win))
			for j, x := range win {
				w[j] = [2]int64{x.off, x.rtd}
			}
			r.Violation("LuckyPacketFilter.Do|wrong-value:not the median offset of the k lowest-rtd samples of the last N|"+ic, id,
				witness(i, map[string]any{"got": int64(got), "want_range": []int64{lo, hi}, "N": n, "k": k, "window_offset_rtd": w}))
			return
		}
	}
	return
}

// =====================================================================
// Ntimed filter
// =====================================================================

type c17Rec struct {
	have                 bool
	branch               int64
	lo, hi, loLim, hiLim float64
}

type c17Handler struct{ rec *c17Rec }

func (h c17Handler) Enabled(context.Context, slog.Level) bool { return true }
func (h c17Handler) WithAttrs([]slog.Attr) slog.Handler       { return h }
func (h c17Handler) WithGroup(string) slog.Handler            { return h }
func (h c17Handler) Handle(_ context.Context, rec slog.Record) error {
	if rec.Message != "filtered response" {
		return nil
	}
	got := 0
	rec.Attrs(func(a slog.Attr) bool {
		fl := func(dst *float64, bit int) {
			if a.Value.Kind() == slog.KindFloat64 {
				*dst = a.Value.Float64()
				got |= bit
			}
		}
		switch a.Key {
		case "branch":
			if a.Value.Kind() == slog.KindInt64 {
				h.rec.branch = a.Value.Int64()
				got |= 1
			}
		case "lo [s]":
			fl(&h.rec.lo, 2)
		case "hi [s]":
			fl(&h.rec.hi, 4)
		case "loLim [s]":
			fl(&h.rec.loLim, 8)
		case "hiLim [s]":
			fl(&h.rec.hiLim, 16)
		}
		return true
	})
	h.rec.have = got == 31
	return nil
}

type c17NtimedGen struct {
	zeroRTT          bool // some samples have a zero or negative round-trip delay
	rng              *rand.Rand
	t                int64
	theta            int64
	thetaMode        int
	delayMode        int
	base1, base2     int64
	pSpike, pDom     float64
	have             bool
	maxLo, minHi, mx int64
}

func c17NewNtimedGen(rng *rand.Rand) *c17NtimedGen {
	g := &c17NtimedGen{rng: rng, t: c17Base + rng.Int64N(1e9)}
	mags := []int64{0, 1e3, 1e6, 1e9, 1e12, 1e15, 1e18}
	m := mags[rng.IntN(len(mags))]
	if m > 0 {
		g.theta = c17Sign(rng) * c17LogU(rng, max(m/1000, 1), m)
	}
	g.thetaMode = rng.IntN(4)
	g.delayMode = rng.IntN(3)
	g.base1 = c17LogU(rng, 1000, 1e8)
	g.base2 = c17LogU(rng, 1000, 1e8)
	if rng.IntN(2) == 0 {
		g.base2 = g.base1
	}
	g.pSpike = []float64{0.05, 0.15, 0.3, 0.5}[rng.IntN(4)]
	g.pDom = []float64{0, 0.05, 0.1, 0.25}[rng.IntN(4)]
	g.zeroRTT = rng.IntN(4) == 0
	return g
}

func (g *c17NtimedGen) reset() { g.have = false }

func (g *c17NtimedGen) note(s c17Sample) {
	lo, hi := s.CTx-s.SRx, s.CRx-s.STx
	a := max(max(lo, -lo), max(hi, -hi))
	if !g.have {
		g.maxLo, g.minHi, g.mx, g.have = lo, hi, a, true
		return
	}
	g.maxLo, g.minHi, g.mx = max(g.maxLo, lo), min(g.minHi, hi), max(g.mx, a)
}

func (g *c17NtimedGen) next() c17Sample {
	rng := g.rng
	g.t += c17LogU(rng, 1e6, 64e9)
	proc := c17LogU(rng, 1, 1e8)
	if g.have && rng.Float64() < g.pDom {
		// a sample with lower delays in both directions than anything seen since the reset
		margin := g.mx/1e9*2 + 4 + c17LogU(rng, 1, 1e6)
		lo := g.maxLo + margin
		hi := g.minHi - margin
		if hi-lo >= 2000 { // keeps a round-trip delay of at least 2 us
			s := c17Sample{CTx: g.t, SRx: g.t - lo}
			s.STx = s.SRx + proc
			s.CRx = s.STx + hi
			g.note(s)
			return s
		}
	}
	switch g.thetaMode {
	case 0: // constant
	case 1: // wander
		g.theta += rng.Int64N(2001) - 1000
	case 2: // drift
		g.theta += 50 + rng.Int64N(100)
	default: // occasional jump
		if rng.IntN(20) == 0 {
			g.theta += c17Sign(rng) * c17LogU(rng, 1e3, 1e12)
		}
	}
	if g.theta > 1e18 {
		g.theta = 1e18
	}
	if g.theta < -1e18 {
		g.theta = -1e18
	}
	var d1, d2 int64
	switch g.delayMode {
	case 0: // independent, log-uniform over the whole range
		d1, d2 = c17LogU(rng, 1000, 1e10), c17LogU(rng, 1000, 1e10)
	default: // base delay + jitter, spikes in one or both directions
		j1, j2 := g.base1/20+1, g.base2/20+1
		if g.delayMode == 2 {
			j1, j2 = g.base1/1000+1, g.base2/1000+1
		}
		d1 = g.base1 + rng.Int64N(j1)
		d2 = g.base2 + rng.Int64N(j2)
		if rng.Float64() < g.pSpike {
			switch rng.IntN(3) {
			case 0:
				d1 += c17LogU(rng, j1, 1e10-d1)
			case 1:
				d2 += c17LogU(rng, j2, 1e10-d2)
			default:
				d1 += c17LogU(rng, j1, 1e10-d1)
				d2 += c17LogU(rng, j2, 1e10-d2)
			}
		}
	}
	if g.zeroRTT && rng.IntN(12) == 0 {
		// coarse or identical timestamps: a sample whose round-trip delay is zero or negative
		switch rng.IntN(3) {
		case 0:
			d1, d2 = 0, 0
		case 1:
			d1, d2 = c17LogU(rng, 1, 1e6), 0
			d2 = -d1
		default:
			d1, d2 = -c17LogU(rng, 1, 1e6), -c17LogU(rng, 1, 1e6)
		}
	}
	s := c17Mk(g.t, g.theta, d1, d2, proc)
	g.note(s)
	return s
}

// c17GenNtimed generates a history of samples with Reset() and/or epoch
// changes interspersed.
func c17GenNtimed(rng *rand.Rand, withEpoch bool, epoch0 uint64) []c17Op {
	var n int
	switch rng.IntN(4) {
	case 0:
		n = 1 + rng.IntN(10)
	case 1:
		n = 1 + rng.IntN(200)
	default:
		n = 1 + rng.IntN(60)
	}
	g := c17NewNtimedGen(rng)
	pEv := []float64{0.01, 0.03, 0.1, 0.3}[rng.IntN(4)]
	epoch := epoch0
	ops := make([]c17Op, 0, n+8)
	nEv := 0
	event := func() {
		nEv++
		if withEpoch && rng.IntN(3) != 0 {
			if rng.IntN(8) == 0 {
				epoch = rng.Uint64()
			} else {
				epoch += 1 + uint64(rng.IntN(3))
			}
			ops = append(ops, c17Op{Kind: "epoch", Epoch: epoch})
		} else {
			ops = append(ops, c17Op{Kind: "reset"})
		}
		g.reset()
		if rng.IntN(3) == 0 { // the history after the event may look completely different
			t := g.t
			g = c17NewNtimedGen(rng)
			g.t = t
		}
	}
	for i := 0; i < n; i++ {
		if rng.Float64() < pEv {
			event()
		}
		s := g.next()
		ops = append(ops, c17Op{Kind: "sample", S: &s})
	}
	if nEv == 0 && n > 1 { // every history has at least one event
		p := 1 + rng.IntN(n-1)
		ops = append(ops, c17Op{})
		copy(ops[p+1:], ops[p:])
		if withEpoch {
			ops[p] = c17Op{Kind: "epoch", Epoch: epoch0 + 1}
		} else {
			ops[p] = c17Op{Kind: "reset"}
		}
	}
	return ops
}

// c17Tol is the float tolerance in ns for a value computed in float64 seconds
// from operands of magnitude lo, hi (ns): 4 ulp of the larger operand + 2 ns.
func c17Tol(lo, hi int64) uint64 {
	m := math.Max(math.Abs(float64(lo)), math.Abs(float64(hi))) / 1e9
	u := math.Nextafter(m, math.Inf(1)) - m
	return uint64(math.Ceil(4*u*1e9)) + 2
}

func c17RunNtimed(r *ev.Run, id string, ops []c17Op, clk *c17Clock, cls c17Classes) (evals int64) {
	recA, recB := &c17Rec{}, &c17Rec{}
	a := client.NewNtimedFilter(slog.New(c17Handler{recA}))
	// a second long-lived instance with the same history, always asked after the first (a time service
	// keeps one filter per server): identical histories, identical outputs, also across clock steps
	a2 := client.NewNtimedFilter(slog.New(slog.DiscardHandler))
	var b *client.NtimedFilter
	bKind := ""
	n := 0 // samples since creation / Reset / epoch change
	var maxLo, minHi, mx int64
	epoch0 := clk.epoch.Load()
	witness := func(upto int, detail any) any {
		return map[string]any{"filter": "NtimedFilter", "clock_epoch_at_creation": epoch0, "history": ops[:upto+1], "detail": detail}
	}
	for i, op := range ops {
		switch op.Kind {
		case "reset":
			if p := c17Try(func() { a.Reset() }); p != nil {
				r.Violation("NtimedFilter.Reset|panic|explicit-reset", id, witness(i, fmt.Sprint(p)))
				return
			}
			n = 0
			b, bKind = client.NewNtimedFilter(slog.New(c17Handler{recB})), "explicit-reset"
			_ = c17Try(func() { a2.Reset() })
			continue
		case "epoch":
			clk.epoch.Store(op.Epoch)
			n = 0
			b, bKind = client.NewNtimedFilter(slog.New(c17Handler{recB})), "epoch-change"
			continue
		}
		s := *op.S
		t0, t1, t2, t3 := s.times()
		raw := c17Raw(*op.S)
		lo, hi := s.CTx-s.SRx, s.CRx-s.STx
		n++
		*recA = c17Rec{}
		var got time.Duration
		if p := c17Try(func() { got = a.Do(t0, t1, t2, t3) }); p != nil {
			r.Violation("NtimedFilter.Do|panic|generated history", id, witness(i, fmt.Sprint(p)))
			return
		}
		evals++
		{
			var got2 time.Duration
			if p := c17Try(func() { got2 = a2.Do(t0, t1, t2, t3) }); p != nil {
				r.Violation("NtimedFilter.Do|panic|generated history", id, witness(i, fmt.Sprint(p)))
				return
			}
			evals++
			cls["ntimed:second-instance-agrees"]++
			if got2 != got {
				r.Violation("NtimedFilter.Do|wrong-value:a second filter instance with the same history answers differently (state shared between instances, or not reset by the clock step)|two instances", id,
					witness(i, map[string]any{"first_instance": int64(got), "second_instance": int64(got2), "samples_since_reset": n}))
				return
			}
		}
		if hi-lo <= 0 {
			cls["ntimed:round-trip-delay<=0"]++
		}
		tol := c17Tol(lo, hi)
		// expectRaw reports a violation unless got is the raw offset (sign, float tolerance).
		expectRaw := func(class string) bool {
			if c17AbsDiff(int64(got), raw) <= tol {
				return true
			}
			kind := "wrong-value:not the raw offset"
			if raw != 0 && uint64(max(raw, -raw)) > tol && c17AbsDiff(int64(got), -raw) <= tol {
				kind = "wrong-value:raw offset with the wrong sign"
			}
			det := map[string]any{"got": int64(got), "raw_offset": raw, "tolerance_ns": tol, "samples_since_reset": n,
				"lo_ns": lo, "hi_ns": hi}
			if recA.have {
				det["logged"] = map[string]any{"branch": recA.branch, "lo": fmt.Sprint(recA.lo), "hi": fmt.Sprint(recA.hi),
					"loLim": fmt.Sprint(recA.loLim), "hiLim": fmt.Sprint(recA.hiLim)}
			}
			r.Violation("NtimedFilter.Do|"+kind+"|"+class, id, witness(i, det))
			return false
		}
		ok := true
		// (a) fewer than four samples seen since the last reset
		if n <= 3 {
			cls["ntimed:first3"]++
			ok = expectRaw("sample 1..3 since reset")
		}
		// (b) sample inside every bound that can have been learned since the reset
		margin := max(mx, lo, -lo, hi, -hi)/1e9*2 + 4
		if ok && n >= 2 && lo >= maxLo+margin && hi <= minHi-margin {
			cls["ntimed:dominating-sample"]++
			if n > 3 {
				cls["ntimed:dominating-sample,n>3"]++
			}
			ok = expectRaw("lowest delays since reset in both directions")
		}
		// the filter's own record
		if recA.have {
			if recA.branch >= 1 && recA.branch <= 4 {
				cls[fmt.Sprintf("ntimed:branch%d", recA.branch)]++
			}
			if math.IsNaN(recA.loLim) || math.IsNaN(recA.hiLim) {
				cls["ntimed:nan-limit"]++
			}
			m := math.Max(math.Abs(float64(lo)), math.Abs(float64(hi))) / 1e9
			u := math.Nextafter(m, math.Inf(1)) - m
			if math.Abs(recA.lo-float64(lo)/1e9) <= 4*u && math.Abs(recA.hi-float64(hi)/1e9) <= 4*u {
				cls["ntimed:log-record-usable"]++
				inside := !(recA.lo < recA.loLim) && !(recA.hi > recA.hiLim)
				if inside {
					cls["ntimed:logged-inside-limits"]++
					if n > 3 {
						cls["ntimed:logged-inside-limits,n>3"]++
					}
					if ok {
						ok = expectRaw("logged lo/hi inside logged loLim/hiLim")
					}
					if recA.branch != 4 {
						r.Violation("NtimedFilter.Do|state:logged branch says outside although logged lo/hi are inside the logged limits|n>0", id,
							witness(i, map[string]any{"branch": recA.branch, "lo": fmt.Sprint(recA.lo), "hi": fmt.Sprint(recA.hi),
								"loLim": fmt.Sprint(recA.loLim), "hiLim": fmt.Sprint(recA.hiLim)}))
						ok = false
					}
				} else if recA.branch == 4 && ok {
					ok = expectRaw("logged as branch 4 (inside)")
				}
			} else {
				// the record does not describe this sample in the expected convention: not usable as an observation
				cls["ntimed:log-record-unusable"]++
			}
		}
		if c17AbsDiff(int64(got), raw) > tol {
			cls["ntimed:output-differs-from-raw"]++
		}
		if math.Abs(float64(raw)) >= 1e15 {
			cls["ntimed:|offset|>=1e6s"]++
		}
		// (c) reset independence: a fresh instance fed only the samples since the event
		if b != nil {
			var gotB time.Duration
			if p := c17Try(func() { gotB = b.Do(t0, t1, t2, t3) }); p != nil {
				r.Violation("NtimedFilter.Do|panic|generated history", id, witness(i, fmt.Sprint(p)))
				return
			}
			evals++
			cls["ntimed:reset-independence:"+bKind]++
			if n > 3 {
				cls["ntimed:reset-independence,n>3"]++
			}
			if gotB != got {
				r.Violation("NtimedFilter.Do|wrong-value:output depends on samples seen before the reset|"+bKind, id,
					witness(i, map[string]any{"got": int64(got), "fresh_instance_on_samples_since_reset": int64(gotB),
						"samples_since_reset": n, "raw_offset": raw}))
				ok = false
			}
		}
		if !ok {
			return
		}
		a0 := max(max(lo, -lo), max(hi, -hi))
		if n == 1 {
			maxLo, minHi, mx = lo, hi, a0
		} else {
			maxLo, minHi, mx = max(maxLo, lo), min(minHi, hi), max(mx, a0)
		}
	}
	return
}

func init() {
	register("C17", "exploration", func(r *ev.Run) {
		clk := &c17Clock{}
		clk.epoch.Store(7)
		if p := c17Try(func() { timebase.RegisterClock(clk) }); p != nil {
			r.Inconclusive(fmt.Sprintf("cannot register the scripted clock: %v", p))
			r.Finish("no execution", 0)
		}
		only := r.Only()
		want := func(id string) bool { return only == "" || only == id }

		// ---- phase 1 (parallel, epoch constant): lucky histories, ntimed histories with explicit Reset()
		nLucky := r.Pick(8700, 1200000)
		nNt := r.Pick(8000, 1200000)
		const chunk = 50
		type task struct {
			kind string
			from int
			to   int
		}
		var tasks []task
		for i := 0; i < nLucky; i += chunk {
			tasks = append(tasks, task{"L", i, min(i+chunk, nLucky)})
		}
		for i := 0; i < nNt; i += chunk {
			tasks = append(tasks, task{"N", i, min(i+chunk, nNt)})
		}
		var sampled atomic.Int64
		parallel(len(tasks), func(w, ti int) {
			t := tasks[ti]
			cls := c17Classes{}
			var evals, hist int64
			for i := t.from; i < t.to; i++ {
				id := fmt.Sprintf("%s%d", t.kind, i)
				if !want(id) {
					continue
				}
				rng := r.Rng("c17/" + id)
				hist++
				if t.kind == "L" {
					c := i % 145
					cfg := c17LuckyCfg{Zero: c == 144, Cap: c/12 + 1, Pick: c%12 + 1}
					if cfg.Zero {
						cfg.Cap, cfg.Pick = 0, 0
					}
					ops := c17GenLucky(rng)
					evals += c17RunLucky(r, id, cfg, ops, cls)
					if i%700 == 3 && sampled.Add(1) <= 3 {
						r.Sample(map[string]any{"case": id, "filter": "LuckyPacketFilter", "config": cfg, "history_prefix": ops[:min(len(ops), 4)], "history_len": len(ops)})
					}
				} else {
					ops := c17GenNtimed(rng, false, 7)
					evals += c17RunNtimed(r, id, ops, clk, cls)
					if i%700 == 5 && sampled.Add(1) <= 6 {
						r.Sample(map[string]any{"case": id, "filter": "NtimedFilter", "history_prefix": ops[:min(len(ops), 4)], "history_len": len(ops)})
					}
				}
			}
			r.Eval(evals)
			r.DistinctN(hist)
			cls.flush(r)
		})

		// ---- phase 2 (sequential, the epoch is process-global): epoch changes mixed with Reset()
		cls := c17Classes{}
		var evals, hist int64
		nEp := r.Pick(4000, 400000)
		for i := 0; i < nEp; i++ {
			id := fmt.Sprintf("E%d", i)
			if !want(id) {
				continue
			}
			rng := r.Rng("c17/" + id)
			e0 := uint64(rng.IntN(3)) // includes epoch 0 = the zero value of the filter's own epoch field
			if rng.IntN(10) == 0 {
				e0 = rng.Uint64()
			}
			clk.epoch.Store(e0)
			ops := c17GenNtimed(rng, true, e0)
			evals += c17RunNtimed(r, id, ops, clk, cls)
			hist++
			if i == 11 {
				r.Sample(map[string]any{"case": id, "filter": "NtimedFilter", "initial_epoch": e0, "history_prefix": ops[:min(len(ops), 5)], "history_len": len(ops)})
			}
		}
		// ---- phase 3 (sequential): one event at every position of short histories
		nPos := r.Pick(1000, 100000)
		for i := 0; i < nPos; i++ {
			rng := r.Rng(fmt.Sprintf("c17/P%d", i))
			l := 1 + rng.IntN(10)
			g := c17NewNtimedGen(rng)
			g.pDom = 0
			base := make([]c17Op, l)
			for j := range base {
				s := g.next()
				base[j] = c17Op{Kind: "sample", S: &s}
			}
			for p := 0; p <= l; p++ {
				for _, kind := range []string{"reset", "epoch"} {
					id := fmt.Sprintf("P%d.%d.%s", i, p, kind)
					if !want(id) {
						continue
					}
					clk.epoch.Store(uint64(i % 3))
					ops := make([]c17Op, 0, l+1)
					ops = append(ops, base[:p]...)
					ops = append(ops, c17Op{Kind: kind, Epoch: uint64(i%3) + 1})
					ops = append(ops, base[p:]...)
					evals += c17RunNtimed(r, id, ops, clk, cls)
					hist++
					cls["ntimed:event-at-every-position"]++
				}
			}
		}
		r.Eval(evals)
		r.DistinctN(hist)
		cls.flush(r)

		if only == "" && c17LogUsable.Load() == 0 {
			r.Inconclusive("the Ntimed filter's \"filtered response\" record (branch, lo, hi, loLim, hiLim) was never observed")
		}
		r.Assume("lucky-packet comparison: round-trip delays are pairwise distinct within a history (the statement leaves ties open)")
		r.Assume("Ntimed filter: |offset| <= 1e9 s; lucky-packet filter: |offset| <= 7e18 ns (every difference of two timestamps of a sample fits into int64 nanoseconds); one-way delays 1 us .. 10 s")
		r.Assume("raw offset := ((sRx-cTx)+(sTx-cRx))/2 in exact integer arithmetic; float tolerance for the Ntimed filter = 4 ulp of max(|cTx-sRx|,|cRx-sTx|) in seconds + 2 ns")
		r.Assume("Ntimed 'within its learned delay bounds' is checked for samples that provably lie inside any bounds learnable since the reset (cTx-sRx >= and cRx-sTx <= all values seen, relative margin 2e-9) and for samples the filter's own debug record shows inside loLim/hiLim; samples 1..3 since a reset = 'fewer than four samples seen'")
		r.Finish("seeded histories (1..200 samples; offsets 0..+-1e9 s constant/wandering/drifting/jumping; delays log-uniform 1us..10s or base+jitter with one- and two-sided spikes; samples that undercut all delays seen so far) run through the real filters. "+
			"LuckyPacketFilter: all 144 (cap,pick) in 1..12 x 1..12 and the zero value, Reset() at random positions, each output compared with a reference model (window of last N, k lowest rtd, median; even count: either rounding of the midpoint). "+
			"NtimedFilter with a recording slog handler and a registered scripted clock: raw offset for samples 1..3 after creation/Reset/epoch change, for dominating samples and for samples logged inside the limits; "+
			"bit-identical outputs vs a fresh instance after Reset() (parallel phase) and after epoch changes (sequential phases, incl. one event at every position of histories of 1..10 samples). "+
			"classes = filter configuration classes, window states, median parity, Ntimed branches as logged by the filter, oracle clauses exercised; distinct_nontrivial = number of generated histories (distinct by construction)", 18)
	})
}
