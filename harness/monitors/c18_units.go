package monitors

import (
	"fmt"
	"log/slog"
	"math"
	"math/big"
	"sync/atomic"
	"time"

	"example.com/scion-time/base/unixutil"
	"example.com/scion-time/driver/clocks"
	"example.com/scion-time/net/csptp"

	"verif/harness/internal/ev"
)

// C18 — time-unit conversions for kernel and CSPTP interfaces.

func init() {
	register("C18", "exploration", func(r *ev.Run) {
		rng := r.Rng("c18")
		var evals int64

		// ---- TimevalFromNsec
		chkTV := func(n int64) {
			evals++
			tv := unixutil.TimevalFromNsec(n)
			ok := tv.Usec >= 0 && tv.Usec < 1e9
			if ok {
				x := new(big.Int).Mul(big.NewInt(tv.Sec), big.NewInt(1e9))
				x.Add(x, big.NewInt(tv.Usec))
				ok = x.Cmp(big.NewInt(n)) == 0
			}
			if !ok {
				cls := "positive"
				if n < 0 {
					cls = "negative"
					if n%1e9 == 0 {
						cls = "negative multiple of 1e9"
					}
				}
				r.Violation("TimevalFromNsec|wrong-value:not normalised or not equal|"+cls, fmt.Sprintf("tv:%d", n),
					map[string]any{"nsec": n, "sec": tv.Sec, "subsec": tv.Usec})
			}
		}
		for _, b := range []int64{0, math.MinInt64, math.MaxInt64, math.MinInt64 + 1, math.MaxInt64 - 1} {
			chkTV(b)
		}
		for k := int64(-9223372036); k <= 9223372036; k += 9223372036 / int64(r.Pick(2000, 200000)) {
			for d := int64(-2); d <= 2; d++ {
				v := new(big.Int).Mul(big.NewInt(k), big.NewInt(1e9))
				v.Add(v, big.NewInt(d))
				if v.IsInt64() {
					chkTV(v.Int64())
				}
			}
		}
		for k := int64(-50); k <= 50; k++ {
			for d := int64(-3); d <= 3; d++ {
				chkTV(k*1e9 + d)
			}
		}
		for i := 0; i < r.Pick(300000, 30000000); i++ {
			switch i % 3 {
			case 0:
				chkTV(int64(rng.Uint64()))
			case 1:
				chkTV(rng.Int64N(4e9) - 2e9)
			default:
				chkTV((rng.Int64N(2000)-1000)*1e9 + rng.Int64N(7) - 3)
			}
		}
		r.Class("timeval")

		// ---- scaled ppm <-> frequency
		const maxPPM = 32768000 // 500 ppm << 16, the kernel's MAXFREQ_SCALED
		stride := int64(r.Pick(61, 1))
		var n2 int64
		const blocks = 512
		parallel(blocks, func(w, b int) {
			span := int64(2*maxPPM+1+blocks-1) / blocks
			lo := -int64(maxPPM) + int64(b)*span
			hi := min(lo+span, maxPPM+1)
			var n int64
			for x := lo + (int64(b)*5)%stride; x < hi; x += stride {
				f := unixutil.FreqFromScaledPPM(x)
				y := unixutil.ScaledPPMFromFreq(f)
				n++
				if y < x-1 || y > x+1 {
					r.Violation("ScaledPPMFromFreq/FreqFromScaledPPM|wrong-value:round trip off by more than one unit", fmt.Sprintf("ppm:%d", x),
						map[string]any{"x": x, "freq": f, "back": y})
				}
				// the frequency itself: x / (65536 * 1e6) within 1 ulp
				want := float64(x) / (65536.0 * 1e6)
				if math.Abs(f-want) > math.Abs(want)*1e-15 {
					r.Violation("FreqFromScaledPPM|wrong-value:not x/(2^16*10^6)", fmt.Sprintf("ppm:%d", x), map[string]any{"x": x, "freq": f})
				}
			}
			atomic.AddInt64(&n2, n)
		})
		for _, x := range []int64{0, 1, -1, 65536, -65536, maxPPM, -maxPPM, 65536000000, -65536000000} {
			y := unixutil.ScaledPPMFromFreq(unixutil.FreqFromScaledPPM(x))
			n2++
			if y < x-1 || y > x+1 {
				r.Violation("ScaledPPMFromFreq/FreqFromScaledPPM|wrong-value:round trip off by more than one unit", fmt.Sprintf("ppm:%d", x), map[string]any{"x": x, "back": y})
			}
		}
		evals += n2
		r.Class("scaled-ppm")
		r.Set("scaled_ppm_values_checked", n2)
		if stride == 1 {
			r.Set("exhaustive_subspaces", []string{"all scaled-ppm values |x| <= 32768000"})
		}

		// ---- drift allowance proportional to the interval
		log := slog.New(slog.DiscardHandler)
		for i := 0; i < r.Pick(20000, 2000000); i++ {
			var drift time.Duration
			switch rng.IntN(4) {
			case 0:
				drift = time.Duration(1 + rng.Int64N(1000)) // ns per s
			case 1:
				drift = time.Duration(1 + rng.Int64N(1e6))
			case 2:
				drift = time.Duration(1 + rng.Int64N(1e9))
			default:
				drift = []time.Duration{1, 100, 250 * time.Microsecond, time.Millisecond, time.Second}[rng.IntN(5)]
			}
			clk := clocks.NewSystemClock(log, drift)
			var d time.Duration
			switch rng.IntN(3) {
			case 0:
				d = time.Duration(1 + rng.Int64N(int64(time.Hour)))
			case 1:
				d = time.Duration(1+rng.Int64N(3600)) * time.Second
			default:
				d = time.Duration(1 + rng.Int64N(1e6))
			}
			k := 1 + rng.Int64N(1000)
			evals++
			got1 := clk.Drift(d)
			gotk := clk.Drift(time.Duration(k) * d)
			// exact value d*drift/1e9 in big rationals
			exact := func(dd time.Duration) *big.Rat {
				x := new(big.Rat).SetInt64(int64(dd))
				x.Mul(x, new(big.Rat).SetInt64(int64(drift)))
				return x.Quo(x, big.NewRat(1e9, 1))
			}
			within := func(got time.Duration, want *big.Rat) bool {
				diff := new(big.Rat).Sub(new(big.Rat).SetInt64(int64(got)), want)
				diff.Abs(diff)
				tol := new(big.Rat).Mul(new(big.Rat).Abs(want), big.NewRat(1, 1<<48))
				tol.Add(tol, big.NewRat(1, 1))
				return diff.Cmp(tol) <= 0
			}
			if !within(got1, exact(d)) || !within(gotk, exact(time.Duration(k)*d)) {
				r.Violation("SystemClock.Drift|wrong-value:not proportional to the interval", fmt.Sprintf("drift:%d,%d,%d", drift, d, k),
					map[string]any{"drift_ns_per_s": int64(drift), "interval": int64(d), "k": k, "drift(d)": int64(got1), "drift(k*d)": int64(gotk)})
			}
		}
		r.Class("drift")

		// ---- CSPTP timestamps
		chkTS := func(sec int64, ns int64) {
			evals++
			t := time.Unix(sec, ns).UTC()
			var back time.Time
			p := c02Recover(func() { back = csptp.TimeFromTimestamp(csptp.TimestampFromTime(t)) })
			inRange := sec >= 0 && sec <= 1<<48-1
			switch {
			case inRange && p != nil:
				r.Violation("csptp.TimestampFromTime|panic|in 48-bit range", fmt.Sprintf("ts:%d,%d", sec, ns), fmt.Sprint(p))
			case inRange && !back.Equal(t):
				r.Violation("csptp.TimeFromTimestamp|wrong-value:round trip", fmt.Sprintf("ts:%d,%d", sec, ns),
					map[string]any{"sec": sec, "ns": ns, "back_sec": back.Unix(), "back_ns": back.Nanosecond()})
			case !inRange && p == nil:
				r.Violation("csptp.TimestampFromTime|wrong-value:no panic outside the 48-bit range", fmt.Sprintf("ts:%d,%d", sec, ns), map[string]any{"sec": sec})
			}
		}
		for _, s := range []int64{0, 1, -1, 1<<48 - 1, 1 << 48, 1<<48 - 2, 1 << 32, 1<<32 - 1, 1 << 40, 1<<40 - 1, 255, 256, 65535, 65536, 1 << 24, 1700000000, -1700000000} {
			for _, ns := range []int64{0, 1, 999999999, 500000000} {
				chkTS(s, ns)
			}
		}
		for i := 0; i < r.Pick(200000, 20000000); i++ {
			var s int64
			switch i % 4 {
			case 0:
				s = rng.Int64N(1 << 48)
			case 1:
				s = int64(1) << uint(rng.IntN(48))
				s += rng.Int64N(3) - 1
			case 2:
				s = rng.Int64N(1 << 33)
			default:
				s = rng.Int64N(1<<49) - 1<<47 // includes out of range on both sides
			}
			chkTS(s, rng.Int64N(1e9))
		}
		r.Class("csptp-timestamp")

		// ---- correction fields: drop the 16 sub-nanosecond bits
		chkTI := func(i int64) {
			evals++
			got := csptp.DurationFromTimeInterval(i)
			want := new(big.Int).Rsh(big.NewInt(i), 16) // arithmetic shift = floor(i/2^16)
			if big.NewInt(int64(got)).Cmp(want) != 0 {
				r.Violation("csptp.DurationFromTimeInterval|wrong-value:not floor(i/2^16)", fmt.Sprintf("ti:%d", i), map[string]any{"i": i, "got": int64(got)})
			}
		}
		for _, i := range []int64{0, 1, -1, 65535, 65536, 65537, -65535, -65536, -65537, math.MaxInt64, math.MinInt64} {
			chkTI(i)
		}
		for i := 0; i < r.Pick(200000, 20000000); i++ {
			if i%2 == 0 {
				chkTI(int64(rng.Uint64()))
			} else {
				chkTI((rng.Int64N(2000)-1000)*65536 + rng.Int64N(5) - 2)
			}
		}
		r.Class("csptp-correction")

		// ---- offset / delay formulas recover (theta, d)
		for i := 0; i < r.Pick(200000, 20000000); i++ {
			evals++
			lim := int64(1) << uint(10+rng.IntN(50))
			theta := rng.Int64N(2*lim) - lim
			d := rng.Int64N(lim)
			c1 := rng.Int64N(lim)
			c3 := rng.Int64N(lim)
			if i%16 == 0 {
				// offsets up to +-(2^63 - 2^42) ns (about 292 years): every term of the formulas still fits
				// into int64 nanoseconds, twice the offset does not
				theta = rng.Int64N(math.MaxInt64-(1<<42)) - (math.MaxInt64-(1<<42))/2
				if rng.IntN(2) == 0 {
					theta = []int64{1, -1}[rng.IntN(2)] * (math.MaxInt64 - (1 << 42) - rng.Int64N(1<<40))
				}
				d, c1, c3 = rng.Int64N(1<<39), rng.Int64N(1<<39), rng.Int64N(1<<39)
			}
			if i%16 == 1 {
				// delays of 2^62 ns and more (about 146 years): offset + delay and delay - offset still fit
				// into int64 nanoseconds, twice the delay does not
				d = (int64(1) << 62) + rng.Int64N((int64(1)<<62)-(int64(1)<<42))
				if rng.IntN(4) == 0 {
					d = (int64(1) << 62) - 2 + rng.Int64N(5)
				}
				room := math.MaxInt64 - (int64(1) << 41) - d
				theta = rng.Int64N(2*min(room, int64(1)<<50)+1) - min(room, int64(1)<<50)
				c1, c3 = rng.Int64N(1<<39), rng.Int64N(1<<39)
			}
			if rng.IntN(8) == 0 {
				c1, c3 = 0, 0
			}
			base := int64(1700000000)
			if i%16 == 2 || i%16 == 3 {
				// a one-way term within the correction of the int64 limits (the raw difference of the two
				// timestamps, term plus correction, is outside int64 although offset, delay, both terms and
				// the corrections fit), corrections of either sign over the 48 bits a correction field has
				base = int64(1) << 40
				cl := int64(1) << uint(1+rng.IntN(47))
				c1, c3 = rng.Int64N(2*cl)-cl, rng.Int64N(2*cl)-cl
				near := math.MaxInt64 - rng.Int64N(cl)
				switch rng.IntN(4) {
				case 0: // offset + delay near the upper limit
					d = rng.Int64N(near)
					theta = near - d
				case 1: // delay - offset near the upper limit
					d = rng.Int64N(near)
					theta = d - near
				case 2: // delay alone
					d, theta = near, rng.Int64N(3)-1
					if theta > 0 && d == math.MaxInt64 {
						theta = 0
					}
				default: // offset alone, delay small
					d = rng.Int64N(1 << 20)
					theta = []int64{1, -1}[rng.IntN(2)] * (near - d)
				}
			}
			if i%16 == 4 {
				// offset and delay fit int64 each, a one-way term does not
				base = int64(1) << 40
				d = (int64(1) << 62) + rng.Int64N(int64(1)<<62)
				theta = []int64{1, -1}[rng.IntN(2)] * ((int64(1) << 62) + rng.Int64N(int64(1)<<62))
				cl := int64(1) << uint(1+rng.IntN(47))
				c1, c3 = rng.Int64N(2*cl)-cl, rng.Int64N(2*cl)-cl
			}
			if i%16 == 5 || i%16 == 6 {
				// timestamps on both sides of the last instant whose Unix time in nanoseconds fits into int64
				// (2262-04-11T23:47:16.854775807Z), offsets and delays small or moderate
				base = 9223372036 - rng.Int64N(3)
				if i%16 == 6 {
					lim2 := int64(1) << uint(10+rng.IntN(24))
					theta, d, c1, c3 = rng.Int64N(2*lim2)-lim2, rng.Int64N(lim2), rng.Int64N(lim2), rng.Int64N(lim2)
				}
			}
			proc := rng.Int64N(1e9)
			// client clock C, server clock S = C + theta
			t0 := time.Unix(base, rng.Int64N(1e9)).UTC()
			t1 := t0.Add(time.Duration(theta)).Add(time.Duration(d)).Add(time.Duration(c1)) // server rx reading, residence correction c1
			t2 := t1.Add(time.Duration(proc))
			t3 := t2.Add(time.Duration(-theta)).Add(time.Duration(d)).Add(time.Duration(c3))
			off := csptp.ClockOffset(t0, t1, t2, t3, time.Duration(c1), time.Duration(c3))
			mpd := csptp.MeanPathDelay(t0, t1, t2, t3, time.Duration(c1), time.Duration(c3))
			if int64(off) != theta || int64(mpd) != d {
				r.Violation("csptp.ClockOffset/MeanPathDelay|wrong-value:does not recover offset and delay", fmt.Sprintf("od:%d", i),
					map[string]any{"theta": theta, "d": d, "c1": c1, "c3": c3, "got_offset": int64(off), "got_delay": int64(mpd)})
			}
			// one-way delays with the UTC correction equal to the true offset
			c2s := csptp.C2SDelay(t0, t1, time.Duration(c1), time.Duration(theta))
			s2c := csptp.S2CDelay(t2, t3, time.Duration(c3), time.Duration(theta))
			if int64(c2s) != d || int64(s2c) != d {
				r.Violation("csptp.C2SDelay/S2CDelay|wrong-value:does not recover the one-way delay", fmt.Sprintf("od:%d", i),
					map[string]any{"theta": theta, "d": d, "c2s": int64(c2s), "s2c": int64(s2c)})
			}
			if i%50000 == 0 {
				r.Sample(map[string]any{"theta": theta, "d": d, "c1": c1, "c3": c3, "offset": int64(off), "mean_path_delay": int64(mpd)})
			}
		}
		r.Class("csptp-offset-delay")
		r.Eval(evals)
		r.DistinctN(evals)
		r.Assume("offset and delay each fit int64 nanoseconds, corrections are within the 48 bits of a correction field, all four timestamps are valid 48-bit CSPTP timestamps")
		r.Assume("scaled-ppm range = the kernel's |freq| <= 500 ppm << 16")
		r.Finish("TimevalFromNsec on int64 boundaries, every multiple of 1e9 +-2 on a grid over the whole int64 range and random values (math/big oracle); scaled-ppm round trip on a stride (quick) or all "+
			"65 536 001 values (thorough); Drift(d), Drift(k*d) against exact rationals (relative 2^-48 + 1 ns); CSPTP timestamps on boundaries of every byte of the 48-bit seconds field, random in range and out of range "+
			"(must panic); correction fields against floor(i/2^16); offset/delay formulas on generated (theta,d,corrections,processing time). Cases are distinct by construction up to random collisions; classes = function families", 6)
	})
}
