package monitors

import (
	"context"
	"errors"
	"fmt"
	"math/rand/v2"
	"runtime"
	"sort"
	"strings"
	"sync"
	"sync/atomic"
	"testing/synctest"
	"time"

	"example.com/scion-time/core/client"
	"example.com/scion-time/core/measurements"

	"verif/harness/internal/ev"
)

// C16 — a measurement round ends by its deadline, counts each result once, leaks nothing.
// Everything runs in testing/synctest bubbles: time is virtual, so "no later than the
// deadline" is decided on the virtual clock and "leaves no goroutine behind" by the bubble
// refusing to end while a goroutine of the round is still blocked.

type c16Clock struct {
	id     int
	at     time.Duration // completion time relative to round start; <0: wait for ctx.Done()
	extra  time.Duration // for at<0: extra delay after cancellation before returning
	fail   bool
	ignore bool // ignores ctx: returns at `at` even if that is after the deadline
	mu     *sync.Mutex
	calls  *int
	ret    *int
}

var errC16 = errors.New("scripted clock error")

func (c *c16Clock) MeasureClockOffset(ctx context.Context) (time.Time, time.Duration, error) {
	c.mu.Lock()
	*c.calls++
	c.mu.Unlock()
	defer func() {
		c.mu.Lock()
		*c.ret++
		c.mu.Unlock()
	}()
	if c.at < 0 {
		<-ctx.Done()
		if c.extra > 0 {
			time.Sleep(c.extra)
		}
		return time.Time{}, 0, ctx.Err()
	}
	if c.ignore {
		time.Sleep(c.at)
	} else {
		tm := time.NewTimer(c.at)
		select {
		case <-tm.C:
		case <-ctx.Done():
			tm.Stop()
			return time.Time{}, 0, ctx.Err()
		}
	}
	if c.fail {
		// a clock may fail with a context error of its own (a sub-deadline it set itself, as the NTS key
		// exchange does) long before the round is over: it is a failure like any other (seed C16-j)
		switch c.id % 3 {
		case 1:
			return time.Time{}, 0, fmt.Errorf("scripted clock: own sub-deadline: %w", context.DeadlineExceeded)
		case 2:
			return time.Time{}, 0, fmt.Errorf("scripted clock: gave up: %w", context.Canceled)
		}
		return time.Time{}, 0, errC16
	}
	return time.Unix(1700000000+int64(c.id), 0), time.Duration(1000 + c.id), nil
}

type c16Spec struct {
	At     []int64 `json:"complete_at_ns"` // -1 = blocks until cancelled
	Extra  []int64 `json:"extra_after_cancel_ns"`
	Fail   []bool  `json:"fails"`
	Ignore []bool  `json:"ignores_ctx"`
	DL     int64   `json:"deadline_ns"` // 0 = no deadline
}

type c16Obs struct {
	Returned  int64    `json:"returned_at_ns"`
	Prefix    []int    `json:"result_ids"`
	Untouched bool     `json:"suffix_untouched"`
	Problems  []string `json:"problems"`
	Deadlock  string   `json:"bubble_panic,omitempty"`
}

var errC16Sentinel = errors.New("sentinel")

func c16RunOne(spec c16Spec) (res c16Obs) {
	n := len(spec.At)
	var omu sync.Mutex
	var obs c16Obs
	defer func() {
		p := recover()
		if omu.TryLock() { // the bubble's root still holds it if the round itself never returned
			res = obs
			omu.Unlock()
		}
		if p != nil {
			res.Deadlock = fmt.Sprint(p)
		}
	}()
	synctest.Run(func() {
		omu.Lock()
		defer omu.Unlock()
		var mu sync.Mutex
		calls, rets := 0, 0
		clks := make([]client.ReferenceClock, n)
		var latest time.Duration
		for i := 0; i < n; i++ {
			c := &c16Clock{id: i, at: time.Duration(spec.At[i]), extra: time.Duration(spec.Extra[i]), fail: spec.Fail[i],
				ignore: spec.Ignore[i], mu: &mu, calls: &calls, ret: &rets}
			clks[i] = c
			if c.at > latest {
				latest = c.at
			}
			if c.at < 0 && time.Duration(spec.DL)+c.extra > latest {
				latest = time.Duration(spec.DL) + c.extra
			}
		}
		ms := make([]measurements.Measurement, n)
		for i := range ms {
			ms[i] = measurements.Measurement{Offset: time.Duration(-777 - i), Error: errC16Sentinel}
		}
		ctx := context.Background()
		var cancel context.CancelFunc = func() {}
		start := time.Now()
		if spec.DL > 0 {
			ctx, cancel = context.WithDeadline(ctx, start.Add(time.Duration(spec.DL)))
		}
		var rc client.ReferenceClockClient
		rc.MeasureClockOffsets(ctx, clks, ms)
		obs.Returned = int64(time.Since(start))
		// snapshot of the result slice at return
		k := 0
		for k < n && !(ms[k].Error == errC16Sentinel && ms[k].Offset == time.Duration(-777-k)) {
			k++
		}
		obs.Untouched = true
		for i := k; i < n; i++ {
			if !(ms[i].Error == errC16Sentinel && ms[i].Offset == time.Duration(-777-i)) {
				obs.Untouched = false
			}
		}
		for i := 0; i < k; i++ {
			id := int(ms[i].Offset) - 1000
			obs.Prefix = append(obs.Prefix, id)
			if ms[i].Error != nil {
				obs.Problems = append(obs.Problems, fmt.Sprintf("slot %d carries an error", i))
			}
			if id >= 0 && id < n && !ms[i].Timestamp.Equal(time.Unix(1700000000+int64(id), 0)) {
				obs.Problems = append(obs.Problems, fmt.Sprintf("slot %d timestamp does not belong to clock %d", i, id))
			}
		}
		snapshot := append([]measurements.Measurement{}, ms...)
		// let every scripted clock return (those that ignore the context finish late)
		cancel()
		time.Sleep(latest + time.Duration(spec.DL) + time.Second)
		synctest.Wait()
		mu.Lock()
		if calls != n || rets != n {
			obs.Problems = append(obs.Problems, fmt.Sprintf("clock calls=%d returns=%d of %d", calls, rets, n))
		}
		mu.Unlock()
		for i := range ms {
			if ms[i] != snapshot[i] {
				obs.Problems = append(obs.Problems, fmt.Sprintf("slot %d modified after the round returned", i))
			}
		}
		// a second round on the same collector must work once the first has finished
		ms2 := make([]measurements.Measurement, 0)
		func() {
			defer func() {
				if p := recover(); p != nil {
					obs.Problems = append(obs.Problems, "second round after completion refused: "+fmt.Sprint(p))
				}
			}()
			rc.MeasureClockOffsets(context.Background(), nil, ms2)
		}()
	})
	return res
}

// c16Guard runs one scenario under a generous wall-clock watchdog. A round normally takes
// microseconds; if it has not ended after 10 min the virtual clock is stuck behind a goroutine
// that never blocks (a busy loop in the collector), which is reported as a hang and ends the
// run at once because the spinning goroutine cannot be stopped.
func c16Guard(r *ev.Run, id string, spec c16Spec) (c16Obs, bool) {
	ch := make(chan c16Obs, 1)
	go func() { ch <- c16RunOne(spec) }()
	select {
	case o := <-ch:
		return o, true
	case <-time.After(60 * time.Second):
	}
	// not a verdict yet: on a machine that is busy with other work a scenario has been seen to sit for a
	// minute (thorough sweep, three checks and a dozen other processes at once); a busy loop never ends
	select {
	case o := <-ch:
		r.Class("scenario took more than 60 s of wall clock (machine busy)")
		return o, true
	case <-time.After(9 * time.Minute):
		r.Violation("MeasureClockOffsets|hang|round did not end (10 min wall clock, virtual time stuck)", id, map[string]any{"spec": spec})
		r.Eval(1)
		r.Finish("run aborted after a hang; see violation", 0)
		return c16Obs{}, false
	}
}

func c16Check(r *ev.Run, id string, spec c16Spec) {
	obs, _ := c16Guard(r, id, spec)
	c16Judge(r, id, spec, obs, "")
	r.Distinct(fmt.Sprint(spec))
}

func c16Judge(r *ev.Run, id string, spec c16Spec, obs c16Obs, clsPrefix string) {
	r.Eval(1)
	n := len(spec.At)
	must, maybe := map[int]bool{}, map[int]bool{}
	anyLate, anyNever, anyFail := false, false, false
	for i := 0; i < n; i++ {
		at := spec.At[i]
		if spec.Fail[i] {
			anyFail = true
		}
		if at < 0 {
			anyNever = true
			continue
		}
		if spec.Fail[i] {
			continue
		}
		switch {
		case spec.DL == 0 || at < spec.DL:
			must[i] = true
		case at == spec.DL:
			maybe[i] = true
		default:
			anyLate = true
		}
	}
	w := map[string]any{"spec": spec, "observed": obs}
	if obs.Deadlock != "" {
		kind := "panic"
		if strings.Contains(obs.Deadlock, "deadlock") {
			kind = "state:goroutine left blocked after all clocks returned"
		}
		r.Violation("MeasureClockOffsets|"+kind, id, w)
		return
	}
	if spec.DL > 0 && obs.Returned > spec.DL {
		r.Violation("MeasureClockOffsets|wrong-value:returned after the deadline", id, w)
	}
	seen := map[int]int{}
	for _, x := range obs.Prefix {
		seen[x]++
	}
	for x, c := range seen {
		if c > 1 {
			r.Violation("MeasureClockOffsets|wrong-value:result counted more than once", id, w)
		}
		if !must[x] && !maybe[x] {
			r.Violation("MeasureClockOffsets|wrong-value:result that failed or was late is in the slice", id, w)
		}
	}
	for x := range must {
		if seen[x] == 0 {
			r.Violation("MeasureClockOffsets|wrong-value:in-time successful result missing from the prefix", id, w)
		}
	}
	if !obs.Untouched {
		r.Violation("MeasureClockOffsets|wrong-value:slice modified beyond the prefix", id, w)
	}
	for _, p := range obs.Problems {
		key := p
		if i := strings.IndexAny(p, "0123456789"); i > 0 {
			key = strings.TrimSpace(p[:i])
		}
		r.Violation("MeasureClockOffsets|state:"+key, id, w)
	}
	// classes observed
	cls := clsPrefix + fmt.Sprintf("n=%s", map[bool]string{true: "0", false: "1+"}[n == 0])
	if spec.DL == 0 {
		cls += ",no-deadline"
	} else if obs.Returned == spec.DL {
		cls += ",ended-at-deadline"
	} else {
		cls += ",ended-early"
	}
	if anyLate {
		cls += ",late"
	}
	if anyNever {
		cls += ",blocked"
	}
	if anyFail {
		cls += ",error"
	}
	if len(maybe) > 0 {
		cls += ",at-deadline"
	}
	r.Class(cls)
	if len(maybe) > 0 {
		in := 0
		for x := range maybe {
			if seen[x] > 0 {
				in++
			}
		}
		r.Class(fmt.Sprintf("tie-at-deadline:%d-of-%d-counted", min(in, 1), 1))
	}
	sort.Ints(obs.Prefix)
}

// c16Chain runs several rounds back to back on ONE collector inside one bubble: round j+1
// starts the moment round j has returned, i.e. while clocks of round j that ignore the
// cancellation are still running. Every round is judged like a single round; a result of an
// earlier round showing up in a later round's slice is a result that does not belong there.
func c16Chain(specs []c16Spec) (res []c16Obs, bubble string) {
	var omu sync.Mutex
	var out []c16Obs
	defer func() {
		p := recover()
		if omu.TryLock() {
			res = out
			omu.Unlock()
		}
		if p != nil {
			bubble = fmt.Sprint(p)
		}
	}()
	synctest.Run(func() {
		omu.Lock()
		defer omu.Unlock()
		var mu sync.Mutex
		calls, rets, want := 0, 0, 0
		var rc client.ReferenceClockClient
		var tail time.Duration
		var cancels []context.CancelFunc
		type keep struct{ ms, snap []measurements.Measurement }
		var kept []keep
		for j, spec := range specs {
			n := len(spec.At)
			base := 100 * (j + 1)
			clks := make([]client.ReferenceClock, n)
			for i := 0; i < n; i++ {
				c := &c16Clock{id: base + i, at: time.Duration(spec.At[i]), extra: time.Duration(spec.Extra[i]), fail: spec.Fail[i],
					ignore: spec.Ignore[i], mu: &mu, calls: &calls, ret: &rets}
				clks[i] = c
				tail = max(tail, c.at, time.Duration(spec.DL)+c.extra)
			}
			want += n
			ms := make([]measurements.Measurement, n)
			for i := range ms {
				ms[i] = measurements.Measurement{Offset: time.Duration(-777 - i), Error: errC16Sentinel}
			}
			ctx, cancel := context.WithDeadline(context.Background(), time.Now().Add(time.Duration(spec.DL)))
			cancels = append(cancels, cancel)
			start := time.Now()
			var o c16Obs
			func() {
				defer func() {
					if p := recover(); p != nil {
						o.Problems = append(o.Problems, "round refused or panicked: "+fmt.Sprint(p))
					}
				}()
				rc.MeasureClockOffsets(ctx, clks, ms)
			}()
			o.Returned = int64(time.Since(start))
			k := 0
			for k < n && !(ms[k].Error == errC16Sentinel && ms[k].Offset == time.Duration(-777-k)) {
				k++
			}
			o.Untouched = true
			for i := k; i < n; i++ {
				if !(ms[i].Error == errC16Sentinel && ms[i].Offset == time.Duration(-777-i)) {
					o.Untouched = false
				}
			}
			for i := 0; i < k; i++ {
				id := int(ms[i].Offset) - 1000
				if ms[i].Error != nil {
					o.Problems = append(o.Problems, fmt.Sprintf("slot %d carries an error", i))
				}
				if !ms[i].Timestamp.Equal(time.Unix(1700000000+int64(id), 0)) {
					o.Problems = append(o.Problems, fmt.Sprintf("slot %d timestamp does not belong to clock %d", i, id))
				}
				if id >= base && id < base+n {
					id -= base
				} else {
					id += 100000 // a value of another round (or of no clock at all)
				}
				o.Prefix = append(o.Prefix, id)
			}
			out = append(out, o)
			kept = append(kept, keep{ms, append([]measurements.Measurement{}, ms...)})
		}
		for _, c := range cancels {
			c()
		}
		time.Sleep(tail + time.Second)
		synctest.Wait()
		mu.Lock()
		if calls != want || rets != want {
			out[len(out)-1].Problems = append(out[len(out)-1].Problems, fmt.Sprintf("clock calls=%d returns=%d of %d", calls, rets, want))
		}
		mu.Unlock()
		for j, kp := range kept {
			for i := range kp.ms {
				if kp.ms[i] != kp.snap[i] {
					out[j].Problems = append(out[j].Problems, fmt.Sprintf("slot %d modified after the round returned", i))
				}
			}
		}
	})
	return res, bubble
}

func c16ChainCheck(r *ev.Run, id string, specs []c16Spec) {
	type ret struct {
		obs    []c16Obs
		bubble string
	}
	ch := make(chan ret, 1)
	go func() { o, b := c16Chain(specs); ch <- ret{o, b} }()
	var got ret
	select {
	case got = <-ch:
	case <-time.After(10 * time.Minute):
		r.Violation("MeasureClockOffsets|hang|round did not end (10 min wall clock, virtual time stuck)", id, map[string]any{"rounds": specs})
		r.Eval(1)
		return
	}
	if got.bubble != "" {
		kind := "panic"
		if strings.Contains(got.bubble, "deadlock") {
			kind = "state:goroutine left blocked after all clocks returned"
		}
		r.Eval(1)
		r.Violation("MeasureClockOffsets|"+kind, id, map[string]any{"rounds": specs, "bubble_panic": got.bubble, "observed": got.obs})
		return
	}
	for j, o := range got.obs {
		c16Judge(r, fmt.Sprintf("%s", id), specs[j], o, fmt.Sprintf("back-to-back round %d:", min(j+1, 3)))
	}
	r.Distinct(fmt.Sprint(specs))
}

// c16Reentry: a second collection on the same collector while one is in progress must be refused.
func c16Reentry(r *ev.Run, id string, firstLen time.Duration, secondAt time.Duration) {
	var refused, firstOK, laterOK bool
	var bubble string
	var rmu sync.Mutex // results cross the bubble boundary: make the hand-over explicit for the race detector
	set := func(p *bool, v bool) { rmu.Lock(); *p = v; rmu.Unlock() }
	func() {
		defer func() {
			if p := recover(); p != nil {
				bubble = fmt.Sprint(p)
			}
		}()
		synctest.Run(func() {
			var mu sync.Mutex
			calls, rets := 0, 0
			var rc client.ReferenceClockClient
			done := make(chan struct{})
			go func() {
				defer close(done)
				defer func() { recover() }() // a panic of the first round shows as firstOK == false
				ms := make([]measurements.Measurement, 1)
				rc.MeasureClockOffsets(context.Background(), []client.ReferenceClock{
					&c16Clock{id: 0, at: firstLen, ignore: true, mu: &mu, calls: &calls, ret: &rets}}, ms)
				set(&firstOK, ms[0].Error == nil && ms[0].Offset == 1000)
			}()
			time.Sleep(secondAt)
			// several attempts while the first collection is still running: every one must be refused
			// (a refusal must not unlock the collector for the next attempt)
			allRefused := true
			for attempt := 0; attempt < 3; attempt++ {
				r1 := false
				func() {
					defer func() {
						if p := recover(); p != nil {
							r1 = true
						}
					}()
					ms := make([]measurements.Measurement, 1)
					rc.MeasureClockOffsets(context.Background(), []client.ReferenceClock{
						&c16Clock{id: 1, at: 0, ignore: true, mu: &mu, calls: &calls, ret: &rets}}, ms)
				}()
				allRefused = allRefused && r1
			}
			set(&refused, allRefused)
			<-done
			func() {
				defer func() { recover() }()
				ms := make([]measurements.Measurement, 1)
				rc.MeasureClockOffsets(context.Background(), []client.ReferenceClock{
					&c16Clock{id: 2, at: 1, ignore: true, mu: &mu, calls: &calls, ret: &rets}}, ms)
				set(&laterOK, ms[0].Error == nil && ms[0].Offset == 1002)
			}()
		})
	}()
	r.Eval(1)
	rmu.Lock()
	defer rmu.Unlock()
	w := map[string]any{"first_round_length_ns": int64(firstLen), "second_started_at_ns": int64(secondAt),
		"second_refused": refused, "first_ok": firstOK, "later_ok": laterOK, "bubble_panic": bubble}
	if bubble != "" {
		r.Violation("MeasureClockOffsets|panic|re-entry scenario", id, w)
		return
	}
	if !refused {
		r.Violation("MeasureClockOffsets|wrong-value:second collection while one is in progress not refused", id, w)
	}
	if !firstOK {
		r.Violation("MeasureClockOffsets|wrong-value:first collection disturbed by refused second", id, w)
	}
	if !laterOK {
		r.Violation("MeasureClockOffsets|wrong-value:collector unusable after a refused second collection", id, w)
	}
	r.Class("re-entry-refused")
}

type c16Gate struct {
	entered *atomic.Int32
	release chan struct{}
}

func (g *c16Gate) MeasureClockOffset(ctx context.Context) (time.Time, time.Duration, error) {
	g.entered.Add(1)
	<-g.release
	return time.Unix(1700000000, 0), 1000, nil
}

// c16Simultaneous: several collections are started on one collector at the same instant (the
// callers meet at a spinning rendezvous). Each uses a clock that blocks until the trial is over,
// so whichever collection is admitted stays in progress: exactly one may be admitted, every
// other one must be refused.
func c16Simultaneous(r *ev.Run, id string, callers, trials int) {
	for t := 0; t < trials; t++ {
		var rc client.ReferenceClockClient
		var entered, refused, arrived atomic.Int32
		release := make(chan struct{})
		var wg sync.WaitGroup
		for c := 0; c < callers; c++ {
			wg.Add(1)
			go func() {
				defer wg.Done()
				defer func() {
					if p := recover(); p != nil {
						refused.Add(1)
					}
				}()
				ms := make([]measurements.Measurement, 1)
				clk := []client.ReferenceClock{&c16Gate{entered: &entered, release: release}}
				arrived.Add(1)
				for arrived.Load() < int32(callers) {
					runtime.Gosched()
				}
				rc.MeasureClockOffsets(context.Background(), clk, ms)
			}()
		}
		deadline := time.Now().Add(20 * time.Second)
		for entered.Load()+refused.Load() < int32(callers) && time.Now().Before(deadline) {
			runtime.Gosched()
		}
		e, f := entered.Load(), refused.Load()
		close(release)
		wg.Wait()
		r.Eval(1)
		if e+f < int32(callers) {
			r.Inconclusive("simultaneous-start trial did not settle within 20 s")
			return
		}
		if e != 1 {
			r.Violation("MeasureClockOffsets|wrong-value:second collection while one is in progress not refused|collections started at the same instant", id,
				map[string]any{"callers": callers, "admitted": e, "refused": f, "trial": t})
			return
		}
	}
	r.Class(fmt.Sprintf("re-entry-refused(simultaneous starts, %d callers)", callers))
}

func init() {
	register("C16", "fault_enumeration", func(r *ev.Run) {
		const D = int64(1000000) // 1 ms virtual deadline
		times := []int64{0, 1, D - 1, D, D + 1, -1}
		var specs []c16Spec
		var ids []string
		add := func(id string, s c16Spec) {
			if r.Only() != "" && r.Only() != id {
				return
			}
			specs = append(specs, s)
			ids = append(ids, id)
		}
		// exhaustive: every (completion time x outcome) pattern for n <= maxN, with a deadline
		maxN := r.Pick(3, 4)
		for n := 0; n <= maxN; n++ {
			opts := len(times) * 2
			total := 1
			for i := 0; i < n; i++ {
				total *= opts
			}
			for code := 0; code < total; code++ {
				s := c16Spec{DL: D, At: make([]int64, n), Extra: make([]int64, n), Fail: make([]bool, n), Ignore: make([]bool, n)}
				c := code
				for i := 0; i < n; i++ {
					o := c % opts
					c /= opts
					s.At[i] = times[o/2]
					s.Fail[i] = o%2 == 1
					s.Ignore[i] = s.At[i] > D // a clock finishing after the deadline is one that ignores cancellation
				}
				add(fmt.Sprintf("ex%d.%d", n, code), s)
			}
		}
		exhaustive := len(specs)
		// random: larger n, random times, clocks that ignore ctx, slow returns after cancel, no-deadline rounds
		rng := r.Rng("c16")
		for k := 0; k < r.Pick(3000, 300000); k++ {
			n := rng.IntN(17)
			crowd := k%8 == 7 // many clocks, most of them blocked beyond the deadline at the same time
			if crowd {
				n = 20 + rng.IntN(80)
			}
			s := c16Spec{DL: D, At: make([]int64, n), Extra: make([]int64, n), Fail: make([]bool, n), Ignore: make([]bool, n)}
			if rng.IntN(6) == 0 && !crowd {
				s.DL = 0
			}
			for i := 0; i < n; i++ {
				switch rng.IntN(5) {
				case 0:
					s.At[i] = times[rng.IntN(len(times))]
				case 1:
					s.At[i] = rng.Int64N(D)
				case 2:
					s.At[i] = D + rng.Int64N(3*D)
					if rng.IntN(3) == 0 { // a clock that comes back long after its round is over
						s.At[i] = D + c17LogU(rng, int64(time.Second), int64(48*time.Hour))
					}
				case 3:
					s.At[i] = D - 2 + rng.Int64N(5)
				default:
					s.At[i] = rng.Int64N(2 * D)
				}
				if crowd && rng.IntN(4) != 0 {
					s.At[i] = D + 1 + rng.Int64N(3*D)
				}
				if s.DL == 0 && s.At[i] < 0 {
					s.At[i] = rng.Int64N(D) // without a deadline nothing cancels: every clock must answer
				}
				s.Fail[i] = rng.IntN(3) == 0
				s.Ignore[i] = s.At[i] > D || rng.IntN(4) == 0
				if s.At[i] < 0 && rng.IntN(2) == 0 {
					s.Extra[i] = rng.Int64N(5 * D)
				}
			}
			add(fmt.Sprintf("rnd%d", k), s)
		}
		parallel(len(specs), func(w, i int) { c16Check(r, ids[i], specs[i]) })
		// back-to-back rounds on one collector: later rounds start while late clocks of earlier ones still run
		var chains [][]c16Spec
		var chainIDs []string
		crng := r.Rng("c16chain")
		for k := 0; k < r.Pick(600, 60000); k++ {
			nr := 2 + crng.IntN(3)
			var ch []c16Spec
			for j := 0; j < nr; j++ {
				n := crng.IntN(6)
				if k%7 == 0 {
					n = 1 + crng.IntN(2)
				}
				s := c16Spec{DL: D, At: make([]int64, n), Extra: make([]int64, n), Fail: make([]bool, n), Ignore: make([]bool, n)}
				for i := 0; i < n; i++ {
					switch crng.IntN(5) {
					case 0:
						s.At[i] = times[crng.IntN(len(times))]
					case 1:
						s.At[i] = crng.Int64N(D)
					case 2:
						s.At[i] = D + 1 + crng.Int64N(3*D) // still running during the following round(s)
					case 3:
						s.At[i] = -1
						s.Extra[i] = crng.Int64N(3 * D)
					default:
						s.At[i] = crng.Int64N(2 * D)
					}
					s.Fail[i] = crng.IntN(4) == 0
					s.Ignore[i] = s.At[i] > D || crng.IntN(4) == 0
				}
				ch = append(ch, s)
			}
			id := fmt.Sprintf("chain%d", k)
			if r.Only() != "" && r.Only() != id {
				continue
			}
			chains = append(chains, ch)
			chainIDs = append(chainIDs, id)
		}
		parallel(len(chains), func(w, i int) { c16ChainCheck(r, chainIDs[i], chains[i]) })
		if r.Only() == "" {
			for k, p := range [][2]time.Duration{{10, 5}, {1000000, 1}, {1000000, 999999}, {2, 1}, {3600 * time.Second, time.Second}} {
				c16Reentry(r, fmt.Sprintf("re%d", k), p[0], p[1])
			}
			for i, s := range specs[:min(len(specs), 3)] {
				r.Sample(map[string]any{"case": ids[i], "spec": s, "observed": c16RunOne(s)})
			}
			if len(specs) > exhaustive+5 {
				r.Sample(map[string]any{"case": ids[exhaustive+3], "spec": specs[exhaustive+3], "observed": c16RunOne(specs[exhaustive+3])})
			}
		}
		if r.Only() == "" || strings.HasPrefix(r.Only(), "sim") {
			for _, callers := range []int{2, 4, 8} {
				c16Simultaneous(r, fmt.Sprintf("sim%d", callers), callers, r.Pick(1500, 60000))
			}
		}
		r.CollectRaces(false, "core/client")
		r.Set("exhaustive_patterns", exhaustive)
		r.Set("exhaustive_subspaces", []string{fmt.Sprintf("all (completion time in {0,1ns,D-1,D,D+1,blocked until cancelled}) x (success,error) patterns for n <= %d clocks", maxN)})
		r.Assume("virtual time of testing/synctest (GOEXPERIMENT=synctest, go1.24); a result completing exactly at the deadline may or may not be counted")
		r.Finish("fault scripts for ReferenceClockClient.MeasureClockOffsets inside synctest bubbles: per clock a completion time relative to the 1 ms virtual deadline (0, 1 ns, D-1, D, D+1, "+
			"blocked until cancelled, random; clocks that honour or ignore cancellation; slow return after cancellation) and an outcome (value with unique id, or error); exhaustive over all patterns for small n, "+
			"seeded random for n <= 16 incl. rounds without deadline; oracle on the virtual clock: return <= deadline, prefix = exactly the in-time successes each once, suffix untouched, slice not written after return, "+
			"bubble ends (no goroutine left blocked) once all clocks returned, second round during a round refused (also when 2, 4 or 8 collections are started at the same instant from a spinning rendezvous: exactly one admitted), after it accepted; chains of 2-4 rounds back to back on one collector (the next round starts while clocks of the previous one that ignore cancellation still run), each round judged alone. distinct_nontrivial = distinct fault scripts (hashed)", 8)
	})
}

var _ = rand.Int
