//go:build verif

package main

// Leg of the monitors that runs INSIDE the service's own package (package main cannot be linked into the
// monitors): the check script compiles the package's test binary with this file laid over the repository
// (go test -c -overlay, nothing is written to the repository) and the monitors run it with VERIF_MAINLEG
// set.  It asserts structural invariants of what timeservice.go wires together and reports in lines
//   MAINLEG EVAL <n> | MAINLEG CLASS <name> | MAINLEG VIOL <signature>\t<detail> | MAINLEG DONE

import (
	"fmt"
	"log/slog"
	"math"
	"math/rand/v2"
	"net"
	"os"
	"reflect"
	"testing"
	"time"

	"github.com/scionproto/scion/pkg/addr"

	"example.com/scion-time/net/udp"
)

func mlViol(sig, detail string)  { fmt.Printf("MAINLEG VIOL %s\t%s\n", sig, detail) }
func mlClass(name string)        { fmt.Printf("MAINLEG CLASS %s\n", name) }
func mlEval(n int)               { fmt.Printf("MAINLEG EVAL %d\n", n) }
func mlPtr(v any) uintptr        { return reflect.ValueOf(v).Pointer() }

func TestVerifMainLeg(t *testing.T) {
	leg := os.Getenv("VERIF_MAINLEG")
	if leg == "" {
		t.Skip("not run by the monitors")
	}
	log := slog.New(slog.DiscardHandler)
	switch leg {
	case "c15wiring":
		ia1, _ := addr.ParseIA("1-ff00:0:110")
		ia2, _ := addr.ParseIA("1-ff00:0:111")
		n := 0
		for _, modes := range [][]string{nil, {authModeNTS}} {
			for _, ria := range []addr.IA{ia1, ia2} {
				la := udp.UDPAddr{IA: ia1, Host: &net.UDPAddr{IP: net.IPv4(127, 0, 0, 1)}}
				ra := udp.UDPAddr{IA: ria, Host: &net.UDPAddr{IP: net.IPv4(127, 0, 0, 2), Port: 10123}}
				c := newNTPReferenceClockSCION(log, "", la, ra, 46, modes, "127.0.0.2:4460", true)
				d := newNTPReferenceClockSCION(log, "", la, ra, 46, modes, "127.0.0.2:4460", true)
				n++
				cls := fmt.Sprintf("auth=%v,same-AS=%v", modes, ria == ia1)
				clients, filters := map[uintptr]int{}, map[uintptr]int{}
				ok := true
				for i, nc := range append(c.ntpcs[:], d.ntpcs[:]...) {
					switch {
					case nc == nil:
						mlViol("timeservice.newNTPReferenceClockSCION|state:client missing|"+cls, fmt.Sprint("slot ", i))
						ok = false
					case nc.Filter == nil:
						mlViol("timeservice.newNTPReferenceClockSCION|state:client without a filter of its own|"+cls, fmt.Sprint("slot ", i))
						ok = false
					case !nc.InterleavedMode || nc.DSCP != 46:
						mlViol("timeservice.newNTPReferenceClockSCION|state:client not configured as the reference clock was asked to|"+cls, fmt.Sprint("slot ", i))
						ok = false
					default:
						clients[mlPtr(nc)]++
						filters[mlPtr(nc.Filter)]++
					}
				}
				if ok && len(clients) != 2*len(c.ntpcs) {
					mlViol("timeservice.newNTPReferenceClockSCION|state:two slots of a reference clock (or two reference clocks) share a client|"+cls, fmt.Sprint(len(clients), " distinct clients in ", 2*len(c.ntpcs), " slots"))
					ok = false
				}
				if ok && len(filters) != 2*len(c.ntpcs) {
					// a client is reset "together with its filter": a filter shared with a client that keeps its path
					// would be wiped under that client
					mlViol("timeservice.newNTPReferenceClockSCION|state:clients share a filter|"+cls, fmt.Sprint(len(filters), " distinct filters for ", 2*len(c.ntpcs), " clients"))
					ok = false
				}
				if ok {
					mlClass("scion reference clock: " + fmt.Sprint(len(c.ntpcs)) + " clients, each with a filter of its own (" + cls + ")")
				}
			}
		}
		la, ra := &net.UDPAddr{IP: net.IPv4(127, 0, 0, 1)}, &net.UDPAddr{IP: net.IPv4(127, 0, 0, 2), Port: 123}
		a, b := newNTPReferenceClockIP(log, la, ra, 46, nil, "", false), newNTPReferenceClockIP(log, la, ra, 46, nil, "", false)
		n++
		if a.ntpc == nil || b.ntpc == nil || a.ntpc.Filter == nil || b.ntpc.Filter == nil || a.ntpc == b.ntpc || mlPtr(a.ntpc.Filter) == mlPtr(b.ntpc.Filter) {
			mlViol("timeservice.newNTPReferenceClockIP|state:reference clocks share a client or a filter, or have none", "")
		} else {
			mlClass("ip reference clocks: a client and a filter of their own each")
		}
		mlEval(n)
	case "c20wiring":
		// what the service hands to the key-exchange fetchers of its clients: the configured key-exchange
		// server and port, the ntske/1 offer, certificate verification as configured, and a fetcher
		// (keys, cookie pool) per client
		n := 0
		for _, ke := range []string{"127.0.0.9:4460", "ke.example.net:4461", "[::1]:14460"} {
			host, port, _ := net.SplitHostPort(ke)
			for _, skip := range []bool{false, true} {
				la, ra := &net.UDPAddr{IP: net.IPv4(127, 0, 0, 1)}, &net.UDPAddr{IP: net.IPv4(127, 0, 0, 2), Port: 123}
				a := newNTPReferenceClockIP(log, la, ra, 0, []string{authModeNTS}, ke, skip)
				b := newNTPReferenceClockIP(log, la, ra, 0, nil, ke, skip)
				n++
				f := &a.ntpc.Auth.NTSKEFetcher
				switch {
				case !a.ntpc.Auth.Enabled || b.ntpc.Auth.Enabled:
					mlViol("timeservice.newNTPReferenceClockIP|state:NTS enabled although not configured, or not enabled although configured", ke)
				case f.TLSConfig.ServerName != host || f.Port != port || f.QUIC.Enabled:
					mlViol("timeservice.configureIPClientNTS|state:fetcher does not name the configured key-exchange server and port over TLS", fmt.Sprintf("%s -> %q %q quic=%v", ke, f.TLSConfig.ServerName, f.Port, f.QUIC.Enabled))
				case len(f.TLSConfig.NextProtos) != 1 || f.TLSConfig.NextProtos[0] != "ntske/1" || f.TLSConfig.InsecureSkipVerify != skip:
					mlViol("timeservice.configureIPClientNTS|state:fetcher does not offer ntske/1 only, or certificate verification is not as configured", fmt.Sprintf("%s skip=%v -> %+v %v", ke, skip, f.TLSConfig.NextProtos, f.TLSConfig.InsecureSkipVerify))
				default:
					mlClass("ip client: key-exchange fetcher as configured")
				}
				ia1, _ := addr.ParseIA("1-ff00:0:110")
				sla := udp.UDPAddr{IA: ia1, Host: &net.UDPAddr{IP: net.IPv4(127, 0, 0, 1)}}
				sra := udp.UDPAddr{IA: ia1, Host: &net.UDPAddr{IP: net.IPv4(127, 0, 0, 2), Port: 10123}}
				c := newNTPReferenceClockSCION(log, "127.0.0.1:30255", sla, sra, 0, []string{authModeNTS}, ke, skip)
				n++
				fetchers := map[uintptr]bool{}
				ok := true
				for i, nc := range c.ntpcs {
					g := &nc.Auth.NTSKEFetcher
					fetchers[mlPtr(g)] = true
					if !nc.Auth.NTSEnabled || g.TLSConfig.ServerName != host || g.Port != port || !g.QUIC.Enabled || g.QUIC.DaemonAddr != "127.0.0.1:30255" ||
						g.QUIC.RemoteAddr.IA != ia1 || g.QUIC.LocalAddr.IA != ia1 || len(g.TLSConfig.NextProtos) != 1 || g.TLSConfig.NextProtos[0] != "ntske/1" || g.TLSConfig.InsecureSkipVerify != skip {
						mlViol("timeservice.configureSCIONClientNTS|state:fetcher of a client is not set up for the configured key-exchange server over QUIC", fmt.Sprintf("%s client %d", ke, i))
						ok = false
						break
					}
				}
				if ok && len(fetchers) != len(c.ntpcs) {
					mlViol("timeservice.newNTPReferenceClockSCION|state:clients share a key-exchange fetcher", ke)
				} else if ok {
					mlClass("scion clients: a key-exchange fetcher each, as configured")
				}
			}
		}
		for in, want := range map[string]string{"0-0,127.0.0.1:123,ke.example:4460": "127.0.0.1:123", "1-ff00:0:110,10.1.2.3:10123": "10.1.2.3:10123"} {
			n++
			if got := ntskeServerFromRemoteAddr(in); got != want {
				mlViol("timeservice.ntskeServerFromRemoteAddr|wrong-value:key-exchange server is not the host part of the remote address", fmt.Sprintf("%q -> %q", in, got))
			}
		}
		mlEval(n)
	case "c01wiring":
		rng := rand.New(rand.NewPCG(1, 1))
		n := 0
		for k := 0; k < 2000; k++ {
			cfg := svcConfig{
				ReferenceClockImpact: []float64{0, 1.25, 1.000001, 2, 10, 1 + rng.Float64()*100}[rng.IntN(6)],
				PeerClockImpact:      []float64{0, 2.5, 3, 12, 3 + rng.Float64()*200}[rng.IntN(5)],
				PeerClockCutoff:      []float64{0, 50e-6, 1e-3, rng.Float64()}[rng.IntN(4)],
				SyncTimeout:          []float64{0, 0.5, 0.1, rng.Float64() * 10}[rng.IntN(4)],
				SyncInterval:         []float64{0, 1, 2, 64, 1 + rng.Float64()*100}[rng.IntN(5)],
				ClockDrift:           []float64{0, 1e-6, 20e-6, 100e-6, rng.Float64() * 1e-3}[rng.IntN(5)],
			}
			sc := syncConfig(cfg)
			n++
			sec := func(f float64, def time.Duration) time.Duration {
				if f == 0 {
					return def
				}
				return time.Duration(math.Round(f * 1e9))
			}
			fl := func(f, def float64) float64 {
				if f == 0 {
					return def
				}
				return f
			}
			near := func(a, b time.Duration) bool { d := a - b; return d >= -1 && d <= 1 }
			switch {
			case sc.ReferenceClockImpact != fl(cfg.ReferenceClockImpact, 1.25) || sc.PeerClockImpact != fl(cfg.PeerClockImpact, 2.5):
				mlViol("timeservice.syncConfig|wrong-value:impact factors handed to the synchronization are not the configured ones (or the documented defaults)", fmt.Sprintf("%+v -> %+v", cfg, sc))
			case !near(sc.PeerClockCutoff, sec(cfg.PeerClockCutoff, 50*time.Microsecond)) || !near(sc.SyncTimeout, sec(cfg.SyncTimeout, 500*time.Millisecond)) || !near(sc.SyncInterval, sec(cfg.SyncInterval, time.Second)):
				mlViol("timeservice.syncConfig|wrong-value:cutoff, timeout or interval handed to the synchronization are not the configured ones (or the documented defaults)", fmt.Sprintf("%+v -> %+v", cfg, sc))
			case !near(clockDrift(cfg), sec(cfg.ClockDrift, 0)):
				mlViol("timeservice.clockDrift|wrong-value:drift handed to the system clock is not the configured one", fmt.Sprintf("%v -> %v", cfg.ClockDrift, clockDrift(cfg)))
			}
		}
		def := syncConfig(svcConfig{})
		if !(def.ReferenceClockImpact > 1) || !(def.PeerClockImpact > def.ReferenceClockImpact+1) || def.SyncInterval <= 0 || def.SyncTimeout > def.SyncInterval/2 {
			mlViol("timeservice.syncConfig|wrong-value:the defaults are not an admissible configuration", fmt.Sprintf("%+v", def))
		} else {
			mlClass("defaults admissible; configured values handed on unchanged")
		}
		mlEval(n)
	default:
		t.Fatalf("unknown leg %q", leg)
	}
	fmt.Println("MAINLEG DONE")
}
