//go:build verif

package main

// Leg of the monitors that runs INSIDE the service's own package (package main cannot be linked into the
// monitors): the check script compiles the package's test binary with this file laid over the repository
// (go test -c -overlay, nothing is written to the repository) and the monitors run it with VERIF_MAINLEG
// set.  It asserts structural invariants of what timeservice.go wires together and reports in lines
//   MAINLEG EVAL <n> | MAINLEG CLASS <name> | MAINLEG VIOL <signature>\t<detail> | MAINLEG DONE

import (
	"bytes"
	"context"
	"runtime"
	"strings"
	"unsafe"

	"github.com/scionproto/scion/pkg/segment/iface"
	"github.com/scionproto/scion/pkg/snet"
	"github.com/scionproto/scion/pkg/snet/path"

	"example.com/scion-time/core/measurements"
	"example.com/scion-time/core/server"
	"example.com/scion-time/core/timebase"
	"example.com/scion-time/driver/clocks"
	"example.com/scion-time/net/ntske"
	"example.com/scion-time/net/scion"
	"fmt"
	"log/slog"
	"math"
	"math/rand/v2"
	"net"
	"os"
	"reflect"
	"testing"
	"time"

	"github.com/scionproto/scion/pkg/addr"

	"example.com/scion-time/net/udp"
)

func mlViol(sig, detail string) { fmt.Printf("MAINLEG VIOL %s\t%s\n", sig, detail) }
func mlClass(name string)       { fmt.Printf("MAINLEG CLASS %s\n", name) }
func mlEval(n int)              { fmt.Printf("MAINLEG EVAL %d\n", n) }
func mlPtr(v any) uintptr       { return reflect.ValueOf(v).Pointer() }

func TestVerifMainLeg(t *testing.T) {
	leg := os.Getenv("VERIF_MAINLEG")
	if leg == "" {
		t.Skip("not run by the monitors")
	}
	log := slog.New(slog.DiscardHandler)
	switch leg {
	case "c15wiring":
		ia1, _ := addr.ParseIA("1-ff00:0:110")
		ia2, _ := addr.ParseIA("1-ff00:0:111")
		n := 0
		for _, modes := range [][]string{nil, {authModeNTS}} {
			for _, ria := range []addr.IA{ia1, ia2} {
				la := udp.UDPAddr{IA: ia1, Host: &net.UDPAddr{IP: net.IPv4(127, 0, 0, 1)}}
				ra := udp.UDPAddr{IA: ria, Host: &net.UDPAddr{IP: net.IPv4(127, 0, 0, 2), Port: 10123}}
				c := newNTPReferenceClockSCION(log, "", la, ra, 46, modes, "127.0.0.2:4460", true)
				d := newNTPReferenceClockSCION(log, "", la, ra, 46, modes, "127.0.0.2:4460", true)
				n++
				cls := fmt.Sprintf("auth=%v,same-AS=%v", modes, ria == ia1)
				clients, filters := map[uintptr]int{}, map[uintptr]int{}
				ok := true
				for i, nc := range append(c.ntpcs[:], d.ntpcs[:]...) {
					switch {
					case nc == nil:
						mlViol("timeservice.newNTPReferenceClockSCION|state:client missing|"+cls, fmt.Sprint("slot ", i))
						ok = false
					case nc.Filter == nil:
						mlViol("timeservice.newNTPReferenceClockSCION|state:client without a filter of its own|"+cls, fmt.Sprint("slot ", i))
						ok = false
					case !nc.InterleavedMode || nc.DSCP != 46:
						mlViol("timeservice.newNTPReferenceClockSCION|state:client not configured as the reference clock was asked to|"+cls, fmt.Sprint("slot ", i))
						ok = false
					default:
						clients[mlPtr(nc)]++
						filters[mlPtr(nc.Filter)]++
					}
				}
				if ok && len(clients) != 2*len(c.ntpcs) {
					mlViol("timeservice.newNTPReferenceClockSCION|state:two slots of a reference clock (or two reference clocks) share a client|"+cls, fmt.Sprint(len(clients), " distinct clients in ", 2*len(c.ntpcs), " slots"))
					ok = false
				}
				if ok && len(filters) != 2*len(c.ntpcs) {
					// a client is reset "together with its filter": a filter shared with a client that keeps its path
					// would be wiped under that client
					mlViol("timeservice.newNTPReferenceClockSCION|state:clients share a filter|"+cls, fmt.Sprint(len(filters), " distinct filters for ", 2*len(c.ntpcs), " clients"))
					ok = false
				}
				if ok {
					mlClass("scion reference clock: " + fmt.Sprint(len(c.ntpcs)) + " clients, each with a filter of its own (" + cls + ")")
				}
			}
		}
		la, ra := &net.UDPAddr{IP: net.IPv4(127, 0, 0, 1)}, &net.UDPAddr{IP: net.IPv4(127, 0, 0, 2), Port: 123}
		a, b := newNTPReferenceClockIP(log, la, ra, 46, nil, "", false), newNTPReferenceClockIP(log, la, ra, 46, nil, "", false)
		n++
		if a.ntpc == nil || b.ntpc == nil || a.ntpc.Filter == nil || b.ntpc.Filter == nil || a.ntpc == b.ntpc || mlPtr(a.ntpc.Filter) == mlPtr(b.ntpc.Filter) {
			mlViol("timeservice.newNTPReferenceClockIP|state:reference clocks share a client or a filter, or have none", "")
		} else {
			mlClass("ip reference clocks: a client and a filter of their own each")
		}
		mlEval(n)
	case "c15service":
		c15Service(log)
	case "c20wiring":
		// what the service hands to the key-exchange fetchers of its clients: the configured key-exchange
		// server and port, the ntske/1 offer, certificate verification as configured, and a fetcher
		// (keys, cookie pool) per client
		n := 0
		for _, ke := range []string{"127.0.0.9:4460", "ke.example.net:4461", "[::1]:14460"} {
			host, port, _ := net.SplitHostPort(ke)
			for _, skip := range []bool{false, true} {
				la, ra := &net.UDPAddr{IP: net.IPv4(127, 0, 0, 1)}, &net.UDPAddr{IP: net.IPv4(127, 0, 0, 2), Port: 123}
				a := newNTPReferenceClockIP(log, la, ra, 0, []string{authModeNTS}, ke, skip)
				b := newNTPReferenceClockIP(log, la, ra, 0, nil, ke, skip)
				n++
				f := &a.ntpc.Auth.NTSKEFetcher
				switch {
				case !a.ntpc.Auth.Enabled || b.ntpc.Auth.Enabled:
					mlViol("timeservice.newNTPReferenceClockIP|state:NTS enabled although not configured, or not enabled although configured", ke)
				case f.TLSConfig.ServerName != host || f.Port != port || f.QUIC.Enabled:
					mlViol("timeservice.configureIPClientNTS|state:fetcher does not name the configured key-exchange server and port over TLS", fmt.Sprintf("%s -> %q %q quic=%v", ke, f.TLSConfig.ServerName, f.Port, f.QUIC.Enabled))
				case f.TLSConfig.ClientSessionCache != nil:
					// every attempt is to be a complete new exchange: no TLS session carried over from an earlier one
					mlViol("timeservice.configureIPClientNTS|state:key exchanges may resume the TLS session of an earlier exchange", ke)
				case len(f.TLSConfig.NextProtos) != 1 || f.TLSConfig.NextProtos[0] != "ntske/1" || f.TLSConfig.InsecureSkipVerify != skip:
					mlViol("timeservice.configureIPClientNTS|state:fetcher does not offer ntske/1 only, or certificate verification is not as configured", fmt.Sprintf("%s skip=%v -> %+v %v", ke, skip, f.TLSConfig.NextProtos, f.TLSConfig.InsecureSkipVerify))
				default:
					mlClass("ip client: key-exchange fetcher as configured")
				}
				ia1, _ := addr.ParseIA("1-ff00:0:110")
				sla := udp.UDPAddr{IA: ia1, Host: &net.UDPAddr{IP: net.IPv4(127, 0, 0, 1)}}
				sra := udp.UDPAddr{IA: ia1, Host: &net.UDPAddr{IP: net.IPv4(127, 0, 0, 2), Port: 10123}}
				c := newNTPReferenceClockSCION(log, "127.0.0.1:30255", sla, sra, 0, []string{authModeNTS}, ke, skip)
				n++
				fetchers := map[uintptr]bool{}
				ok := true
				for i, nc := range c.ntpcs {
					g := &nc.Auth.NTSKEFetcher
					fetchers[mlPtr(g)] = true
					if g.TLSConfig.ClientSessionCache != nil {
						mlViol("timeservice.configureSCIONClientNTS|state:key exchanges may resume the TLS session of an earlier exchange", fmt.Sprintf("%s client %d", ke, i))
						ok = false
						break
					}
					if !nc.Auth.NTSEnabled || g.TLSConfig.ServerName != host || g.Port != port || !g.QUIC.Enabled || g.QUIC.DaemonAddr != "127.0.0.1:30255" ||
						g.QUIC.RemoteAddr.IA != ia1 || g.QUIC.LocalAddr.IA != ia1 || len(g.TLSConfig.NextProtos) != 1 || g.TLSConfig.NextProtos[0] != "ntske/1" || g.TLSConfig.InsecureSkipVerify != skip {
						mlViol("timeservice.configureSCIONClientNTS|state:fetcher of a client is not set up for the configured key-exchange server over QUIC", fmt.Sprintf("%s client %d", ke, i))
						ok = false
						break
					}
				}
				if ok && len(fetchers) != len(c.ntpcs) {
					mlViol("timeservice.newNTPReferenceClockSCION|state:clients share a key-exchange fetcher", ke)
				} else if ok {
					mlClass("scion clients: a key-exchange fetcher each, as configured")
				}
			}
		}
		for in, want := range map[string]string{"0-0,127.0.0.1:123,ke.example:4460": "127.0.0.1:123", "1-ff00:0:110,10.1.2.3:10123": "10.1.2.3:10123"} {
			n++
			if got := ntskeServerFromRemoteAddr(in); got != want {
				mlViol("timeservice.ntskeServerFromRemoteAddr|wrong-value:key-exchange server is not the host part of the remote address", fmt.Sprintf("%q -> %q", in, got))
			}
		}
		mlEval(n)
	case "c01wiring":
		rng := rand.New(rand.NewPCG(1, 1))
		n := 0
		for k := 0; k < 2000; k++ {
			cfg := svcConfig{
				ReferenceClockImpact: []float64{0, 1.25, 1.000001, 2, 10, 1 + rng.Float64()*100}[rng.IntN(6)],
				PeerClockImpact:      []float64{0, 2.5, 3, 12, 3 + rng.Float64()*200}[rng.IntN(5)],
				PeerClockCutoff:      []float64{0, 50e-6, 1e-3, rng.Float64()}[rng.IntN(4)],
				SyncTimeout:          []float64{0, 0.5, 0.1, rng.Float64() * 10}[rng.IntN(4)],
				SyncInterval:         []float64{0, 1, 2, 64, 1 + rng.Float64()*100}[rng.IntN(5)],
				ClockDrift:           []float64{0, 1e-6, 20e-6, 100e-6, rng.Float64() * 1e-3}[rng.IntN(5)],
			}
			sc := syncConfig(cfg)
			n++
			sec := func(f float64, def time.Duration) time.Duration {
				if f == 0 {
					return def
				}
				return time.Duration(math.Round(f * 1e9))
			}
			fl := func(f, def float64) float64 {
				if f == 0 {
					return def
				}
				return f
			}
			near := func(a, b time.Duration) bool { d := a - b; return d >= -1 && d <= 1 }
			switch {
			case sc.ReferenceClockImpact != fl(cfg.ReferenceClockImpact, 1.25) || sc.PeerClockImpact != fl(cfg.PeerClockImpact, 2.5):
				mlViol("timeservice.syncConfig|wrong-value:impact factors handed to the synchronization are not the configured ones (or the documented defaults)", fmt.Sprintf("%+v -> %+v", cfg, sc))
			case !near(sc.PeerClockCutoff, sec(cfg.PeerClockCutoff, 50*time.Microsecond)) || !near(sc.SyncTimeout, sec(cfg.SyncTimeout, 500*time.Millisecond)) || !near(sc.SyncInterval, sec(cfg.SyncInterval, time.Second)):
				mlViol("timeservice.syncConfig|wrong-value:cutoff, timeout or interval handed to the synchronization are not the configured ones (or the documented defaults)", fmt.Sprintf("%+v -> %+v", cfg, sc))
			case !near(clockDrift(cfg), sec(cfg.ClockDrift, 0)):
				mlViol("timeservice.clockDrift|wrong-value:drift handed to the system clock is not the configured one", fmt.Sprintf("%v -> %v", cfg.ClockDrift, clockDrift(cfg)))
			}
		}
		def := syncConfig(svcConfig{})
		if !(def.ReferenceClockImpact > 1) || !(def.PeerClockImpact > def.ReferenceClockImpact+1) || def.SyncInterval <= 0 || def.SyncTimeout > def.SyncInterval/2 {
			mlViol("timeservice.syncConfig|wrong-value:the defaults are not an admissible configuration", fmt.Sprintf("%+v", def))
		} else {
			mlClass("defaults admissible; configured values handed on unchanged")
		}
		mlEval(n)
	default:
		t.Fatalf("unknown leg %q", leg)
	}
	fmt.Println("MAINLEG DONE")
}

// ---- c15service: rounds of a SCION reference clock as the service runs them (ntpReferenceClockSCION.
// MeasureClockOffset with the paths of a Pather) against the repository's own SCION server on loopback.
// The Pather's path table is planted by reflection; paths have an empty dataplane path, the server as
// next hop and distinct interface metadata (distinct fingerprints).

type mlFilter struct {
	inner     measurements.Filter
	nDo, nRst int
}

func (f *mlFilter) Do(cTx, sRx, sTx, cRx time.Time) time.Duration {
	f.nDo++
	return f.inner.Do(cTx, sRx, sTx, cRx)
}
func (f *mlFilter) Reset() { f.nRst++; f.inner.Reset() }

func c15Service(log *slog.Logger) {
	ips := strings.Split(os.Getenv("VERIF_MAINLEG_IPS"), ",")
	if len(ips) != 2 {
		fmt.Println("MAINLEG VIOL harness|bad VERIF_MAINLEG_IPS\t")
		return
	}
	serverIP, clientIP := net.ParseIP(ips[0]).To4(), net.ParseIP(ips[1]).To4()
	ctx := context.Background()
	timebase.RegisterClock(clocks.NewSystemClock(log, clocks.UnknownDrift))
	localIA, remoteIA := addr.MustParseIA("1-ff00:0:111"), addr.MustParseIA("1-ff00:0:112")
	pc, err := net.ListenUDP("udp", &net.UDPAddr{IP: serverIP})
	if err != nil {
		fmt.Printf("MAINLEG INCONCLUSIVE bind %v\n", err)
		return
	}
	serverPort := pc.LocalAddr().(*net.UDPAddr).Port
	pc.Close()
	server.StartSCIONServer(ctx, log, "", &net.UDPAddr{IP: serverIP, Port: serverPort}, 0, ntske.NewProvider())
	time.Sleep(200 * time.Millisecond)
	mkpath := func(k int) snet.Path {
		return path.Path{Src: localIA, Dst: remoteIA, DataplanePath: path.Empty{}, NextHop: &net.UDPAddr{IP: serverIP, Port: serverPort},
			Meta: snet.PathMetadata{Interfaces: []snet.PathInterface{{IA: localIA, ID: iface.ID(100 + k)}, {IA: remoteIA, ID: iface.ID(200 + k)}}, MTU: 1400}}
	}
	clk := newNTPReferenceClockSCION(log, "", udp.UDPAddr{IA: localIA, Host: &net.UDPAddr{IP: clientIP}},
		udp.UDPAddr{IA: remoteIA, Host: &net.UDPAddr{IP: serverIP, Port: serverPort}}, 0, nil, "", false)
	clk.pather = &scion.Pather{}
	setPaths := func(ps []snet.Path) {
		f := reflect.ValueOf(clk.pather).Elem().FieldByName("paths")
		reflect.NewAt(f.Type(), unsafe.Pointer(f.UnsafeAddr())).Elem().Set(reflect.ValueOf(map[addr.IA][]snet.Path{remoteIA: ps}))
	}
	fs := make([]*mlFilter, len(clk.ntpcs))
	for i, c := range clk.ntpcs {
		fs[i] = &mlFilter{inner: c.Filter}
		c.Filter = fs[i]
	}
	seed := uint64(1)
	fmt.Sscan(os.Getenv("VERIF_SEED"), &seed)
	rng := rand.New(rand.NewPCG(seed, 15))
	const nPaths = 10
	offered := map[int]bool{}
	rounds := 14
	fmt.Sscan(os.Getenv("VERIF_MAINLEG_ROUNDS"), &rounds)
	failed := 0
	for round := 0; round < rounds; round++ {
		// the path set of this round: paths come and go, sometimes all of them go
		switch {
		case round == 0:
			for k := 0; k < 4; k++ {
				offered[k] = true
			}
		case round%5 == 4:
			offered = map[int]bool{}
		case round%7 == 5:
			for k := 0; k < nPaths; k++ { // more paths than clients
				offered[k] = true
			}
		default:
			for k := 0; k < nPaths; k++ {
				if rng.IntN(4) == 0 {
					offered[k] = !offered[k]
				}
			}
			if round%3 == 1 { // withdraw the path of a client that holds one
				for _, c := range clk.ntpcs {
					if c.InInterleavedMode() {
						for k := 0; k < nPaths; k++ {
							if snet.Fingerprint(mkpath(k)).String() == c.InterleavedModePath() {
								delete(offered, k)
							}
						}
						break
					}
				}
			}
		}
		var ps []snet.Path
		fps := map[string]bool{}
		for k := 0; k < nPaths; k++ {
			if offered[k] {
				ps = append(ps, mkpath(k))
				fps[snet.Fingerprint(mkpath(k)).String()] = true
			}
		}
		rng.Shuffle(len(ps), func(i, j int) { ps[i], ps[j] = ps[j], ps[i] })
		setPaths(ps)
		type st struct {
			inter  bool
			path   string
			do, rs int
		}
		before := make([]st, len(clk.ntpcs))
		for i, c := range clk.ntpcs {
			before[i] = st{c.InInterleavedMode(), c.InterleavedModePath(), fs[i].nDo, fs[i].nRst}
		}
		rctx, cancel := context.WithTimeout(ctx, 2*time.Second)
		_, _, err := clk.MeasureClockOffset(rctx)
		cancel()
		for i := 0; i < 3000; i++ { // let the per-path goroutines of the round end before the clients are looked at
			buf := make([]byte, 1<<18)
			if !bytes.Contains(buf[:runtime.Stack(buf, true)], []byte(").measureClockOffsetSCION(")) {
				break
			}
			time.Sleep(time.Millisecond)
		}
		cls := fmt.Sprintf("round with %d paths", len(ps))
		if len(ps) > 7 {
			cls = "round with more paths than clients"
		}
		detail := fmt.Sprintf("round %d, %d paths offered, error %v", round, len(ps), err)
		took, kept := 0, 0
		holders := map[string]int{}
		bad := false
		for i, c := range clk.ntpcs {
			did := fs[i].nDo > before[i].do
			if did {
				took++
			}
			hadPath := before[i].inter && fps[before[i].path]
			switch {
			case len(ps) == 0 && (did || c.InInterleavedMode() || (before[i].inter && fs[i].nRst == before[i].rs)):
				mlViol("timeservice.ntpReferenceClockSCION.MeasureClockOffset|wrong-value:no path offered, but a client measured, kept its interleaved state or was not reset with its filter", detail+fmt.Sprintf(", client %d", i))
				bad = true
			case hadPath && !did:
				mlViol("timeservice.ntpReferenceClockSCION.MeasureClockOffset|wrong-value:client in interleaved mode whose path is still offered did not take part", detail+fmt.Sprintf(", client %d", i))
				bad = true
			case hadPath && c.InInterleavedMode() && c.InterleavedModePath() != before[i].path:
				mlViol("timeservice.ntpReferenceClockSCION.MeasureClockOffset|wrong-value:client in interleaved mode did not keep its still-offered path", detail+fmt.Sprintf(", client %d", i))
				bad = true
			case before[i].inter && !hadPath && fs[i].nRst == before[i].rs:
				mlViol("timeservice.ntpReferenceClockSCION.MeasureClockOffset|wrong-value:client whose path was withdrawn was not reset together with its filter", detail+fmt.Sprintf(", client %d", i))
				bad = true
			}
			if hadPath && c.InInterleavedMode() {
				kept++
			}
			if c.InInterleavedMode() {
				if j, ok := holders[c.InterleavedModePath()]; ok {
					mlViol("timeservice.ntpReferenceClockSCION.MeasureClockOffset|wrong-value:two clients hold the same path", detail+fmt.Sprintf(", clients %d and %d", j, i))
					bad = true
				}
				holders[c.InterleavedModePath()] = i
				if !fps[c.InterleavedModePath()] {
					mlViol("timeservice.ntpReferenceClockSCION.MeasureClockOffset|wrong-value:client holds a path that was not offered", detail+fmt.Sprintf(", client %d", i))
					bad = true
				}
			}
		}
		switch {
		case bad:
		case len(ps) == 0 && err == nil:
			mlViol("timeservice.ntpReferenceClockSCION.MeasureClockOffset|wrong-value:no error although no path was offered", detail)
		case len(ps) > 0 && took > min(len(clk.ntpcs), len(ps)):
			mlViol("timeservice.ntpReferenceClockSCION.MeasureClockOffset|wrong-value:more participants than clients or paths", detail)
		case len(ps) > 0 && took < min(len(clk.ntpcs), len(ps)):
			failed++ // an exchange that did not complete in time on a busy machine: counted, not judged
			mlClass("round in which a client's exchange did not complete (not judged)")
		default:
			mlClass(cls)
			if kept > 0 {
				mlClass("round in which clients in interleaved mode kept their paths")
			}
		}
	}
	if failed*3 > rounds {
		fmt.Printf("MAINLEG INCONCLUSIVE %d of %d rounds with exchanges that did not complete\n", failed, rounds)
	}
	mlEval(rounds)
}
