package ev

import (
	"os"
	"path/filepath"
	"regexp"
	"sort"
	"strings"
)

var reLine = regexp.MustCompile(`:\d+( \+0x[0-9a-f]+)?$`)

// CollectRaces parses the race detector's log files (GORACE log_path=$VERIF_SCRATCH/race*),
// de-duplicates the reports by their function stacks (line numbers stripped) and classifies
// them: a report with a frame inside example.com/scion-time is a race of the code under
// test; one with only harness frames is a harness bug. If claims is true (the property
// claims race freedom) the former become violations, otherwise they are recorded as
// observations in the evidence.
func (r *Run) CollectRaces(claims bool, pkgFilter string) {
	dir := os.Getenv("VERIF_SCRATCH")
	if dir == "" {
		return
	}
	files, _ := filepath.Glob(filepath.Join(dir, "race*"))
	type rep struct {
		key   string
		text  string
		repo  bool
		inPkg bool
	}
	seen := map[string]*rep{}
	counts := map[string]int{}
	total := 0
	for _, f := range files {
		b, err := os.ReadFile(f)
		if err != nil {
			continue
		}
		for _, blk := range strings.Split(string(b), "==================") {
			if !strings.Contains(blk, "WARNING: DATA RACE") {
				continue
			}
			total++
			var fns []string
			for _, ln := range strings.Split(blk, "\n") {
				t := strings.TrimSpace(ln)
				if strings.HasSuffix(t, ")") && strings.Contains(t, "(") && !strings.HasPrefix(t, "/") && !strings.Contains(t, " by ") {
					fn := t[:strings.LastIndex(t, "(")]
					if strings.HasPrefix(fn, "example.com/scion-time") || strings.HasPrefix(fn, "verif/harness") {
						fns = append(fns, fn)
					}
				}
			}
			// key: first two scion-time frames of each stack is too fine; use the set of repo functions
			set := map[string]bool{}
			for _, fn := range fns {
				if strings.HasPrefix(fn, "example.com/scion-time") {
					// strip closure suffixes
					set[strings.TrimRight(regexp.MustCompile(`(\.func\d+)+(\.\d+)*$`).ReplaceAllString(fn, ""), ".")] = true
				}
			}
			var ks []string
			for k := range set {
				ks = append(ks, k)
			}
			sort.Strings(ks)
			rp := &rep{text: blk, repo: len(ks) > 0}
			if len(ks) == 0 {
				rp.key = "harness-only"
			} else {
				rp.key = strings.Join(ks, " <-> ")
			}
			for _, k := range ks {
				if pkgFilter == "" || strings.Contains(k, pkgFilter) {
					rp.inPkg = true
				}
			}
			counts[rp.key]++
			if _, ok := seen[rp.key]; !ok {
				seen[rp.key] = rp
			}
		}
	}
	obs := map[string]int{}
	for k, rp := range seen {
		switch {
		case !rp.repo:
			r.Inconclusive("race report inside the harness itself (harness bug): " + firstLines(rp.text, 12))
		case claims && rp.inPkg:
			r.Violation("race:"+k, "race", map[string]any{"report": rp.text, "count": counts[k]})
		default:
			obs[k] = counts[k]
		}
	}
	r.Set("race_reports_total", total)
	r.Set("race_reports_observed_not_claimed", obs)
}

func firstLines(s string, n int) string {
	ls := strings.Split(strings.TrimSpace(s), "\n")
	if len(ls) > n {
		ls = ls[:n]
	}
	return strings.Join(ls, " | ")
}
