package ev

import (
	"bufio"
	"bytes"
	"encoding/json"
	"fmt"
	"os"
	"os/exec"
	"strings"
	"time"
)

// Legs are parts of a monitor that run in a child process (another build variant, a
// process-global resource such as the registered clock, or code that may crash).  The
// child collects into a Run created with NewLeg and hands it over with FinishLeg.

type legViol struct {
	Sig     string `json:"sig"`
	Case    string `json:"case"`
	Witness any    `json:"witness"`
	Count   int    `json:"count"`
}

type legResult struct {
	Evals     int64            `json:"evals"`
	DistinctN int64            `json:"distinct_n"`
	Distinct  []uint64         `json:"distinct"`
	Classes   map[string]int64 `json:"classes"`
	Events    map[string]int64 `json:"events"`
	Samples   []any            `json:"samples"`
	Extra     map[string]any   `json:"extra"`
	Assume    []string         `json:"assume"`
	Viol      []legViol        `json:"viol"`
	Inconcl   []string         `json:"inconclusive"`
	Rule      string           `json:"rule"`
	Floor     int              `json:"floor"`
}

func NewLeg(prop string) *Run {
	r := New(prop, "")
	r.findings = nil // matching against known findings happens in the parent
	r.leg = true
	r.legViol = map[string]*legViol{}
	return r
}

// FinishLeg prints the collected state for the parent and exits 0.
func (r *Run) FinishLeg() {
	r.mu.Lock()
	res := legResult{Evals: r.evals, DistinctN: r.distinctN, Classes: r.classes, Events: r.events, Samples: r.samples,
		Extra: r.extra, Assume: r.assume, Inconcl: r.inconcl, Rule: r.legRule, Floor: r.legFloor}
	for k := range r.distinct {
		res.Distinct = append(res.Distinct, k)
	}
	for _, v := range r.legViol {
		res.Viol = append(res.Viol, *v)
	}
	b, err := json.Marshal(res)
	r.mu.Unlock()
	if err != nil {
		fmt.Fprintln(os.Stderr, "leg marshal:", err)
		os.Exit(3)
	}
	w := bufio.NewWriter(os.Stdout)
	fmt.Fprintf(w, "\nLEGRESULT %s\n", b)
	w.Flush()
	os.Exit(0)
}

// LegOutcome describes how a child leg ended.
type LegOutcome struct {
	OK       bool   // the leg handed over a result
	ExitCode int    // process exit code (-1: killed / signal)
	TimedOut bool   // the watchdog killed it
	Stderr   string // tail of stderr (panic traces, goroutine dumps)
	Stdout   string // stdout without the result line
}

// RunLeg runs `mon leg <name> args...` of the given build variant ("plain" or "race") as a
// child process, merges what it hands over and returns how it ended. extraEnv entries are
// "K=V". The timeout is a watchdog only.
func (r *Run) RunLeg(variant, name string, timeout time.Duration, extraEnv []string, args ...string) LegOutcome {
	bin := os.Getenv("VERIF_MON_PLAIN")
	if variant == "race" {
		bin = os.Getenv("VERIF_MON_RACE")
	}
	if bin == "" {
		bin = os.Args[0]
	}
	cmd := exec.Command(bin, append([]string{"leg", name}, args...)...)
	cmd.Env = append(os.Environ(), extraEnv...)
	var so, se bytes.Buffer
	cmd.Stdout, cmd.Stderr = &so, &se
	out := LegOutcome{}
	if err := cmd.Start(); err != nil {
		out.Stderr = err.Error()
		out.ExitCode = -1
		return out
	}
	done := make(chan error, 1)
	go func() { done <- cmd.Wait() }()
	select {
	case err := <-done:
		if err != nil {
			out.ExitCode = -1
			if ee, ok := err.(*exec.ExitError); ok {
				out.ExitCode = ee.ExitCode()
			}
		}
	case <-time.After(timeout):
		out.TimedOut = true
		_ = cmd.Process.Signal(os.Interrupt)
		_ = cmd.Process.Kill()
		<-done
		out.ExitCode = -1
	}
	tail := func(s string, n int) string {
		if len(s) > n {
			return s[len(s)-n:]
		}
		return s
	}
	out.Stderr = tail(se.String(), 6000)
	stdout := so.String()
	i := strings.LastIndex(stdout, "\nLEGRESULT ")
	if i < 0 {
		out.Stdout = tail(stdout, 4000)
		return out
	}
	line := stdout[i+len("\nLEGRESULT "):]
	if j := strings.IndexByte(line, '\n'); j >= 0 {
		line = line[:j]
	}
	out.Stdout = tail(stdout[:i], 4000)
	var res legResult
	if err := json.Unmarshal([]byte(line), &res); err != nil {
		out.Stderr += "\nleg result unparsable: " + err.Error()
		return out
	}
	out.OK = true
	r.mu.Lock()
	r.evals += res.Evals
	r.distinctN += res.DistinctN
	for _, k := range res.Distinct {
		r.distinct[k] = struct{}{}
	}
	for k, v := range res.Classes {
		r.classes[k] += v
	}
	for k, v := range res.Events {
		r.events[k] += v
	}
	for _, s := range res.Samples {
		if len(r.samples) < 8 {
			r.samples = append(r.samples, s)
		}
	}
	for k, v := range res.Extra {
		if f, ok := v.(float64); ok {
			if old, ok2 := r.extra[k].(float64); ok2 {
				v = old + f
			} else if old, ok2 := r.extra[k].(int64); ok2 {
				v = float64(old) + f
			}
		}
		r.extra[k] = v
	}
	r.inconcl = append(r.inconcl, res.Inconcl...)
	if res.Rule != "" {
		r.legRule, r.legFloor = res.Rule, res.Floor
	}
	r.mu.Unlock()
	for _, a := range res.Assume {
		r.Assume(a)
	}
	for _, v := range res.Viol {
		sig := strings.TrimPrefix(v.Sig, r.Prop+"|")
		for i := 0; i < max(v.Count, 1); i++ {
			r.Violation(sig, v.Case, v.Witness)
			if i > 3 {
				break
			}
		}
	}
	return out
}

// LegRule returns the rule and class floor handed over by the last child leg that ended with Finish.
func (r *Run) LegRule() (string, int) { return r.legRule, r.legFloor }

// CrashViolation turns a child leg that died (instead of handing over a result) into a verdict:
// a panic or fatal error with a frame of the repository is a violation with a signature naming
// that frame; anything else is inconclusive.
func (r *Run) CrashViolation(o LegOutcome, what string) {
	if o.OK {
		return
	}
	if o.TimedOut {
		r.Inconclusive(what + ": child process hit its watchdog")
		return
	}
	first, frame := "", ""
	for _, ln := range strings.Split(o.Stderr, "\n") {
		t := strings.TrimSpace(ln)
		if first == "" && (strings.HasPrefix(t, "panic:") || strings.HasPrefix(t, "fatal error:")) {
			first = t
		}
		if first != "" && frame == "" && strings.HasPrefix(t, "example.com/scion-time/") {
			frame = strings.TrimPrefix(t, "example.com/scion-time/")
			if i := strings.LastIndex(frame, "("); i > 0 {
				frame = frame[:i]
			}
		}
	}
	if first != "" && frame != "" {
		r.Violation(what+"|panic:"+frame+"|process running the real client or listener died", "crash", map[string]any{"first_line": first, "stderr_tail": o.Stderr})
		return
	}
	r.Inconclusive(what + ": child process ended without a result: " + first + " " + tailN(o.Stderr, 600))
}

func tailN(s string, n int) string {
	if len(s) > n {
		return s[len(s)-n:]
	}
	return s
}
