// Package ev implements the verdict/evidence discipline shared by all monitors:
// three-valued verdicts, known-findings matching, replay files and the
// evidence file written on every run.
package ev

import (
	"crypto/sha256"
	"encoding/hex"
	"encoding/json"
	"fmt"
	"hash/fnv"
	"math/rand/v2"
	"os"
	"path/filepath"
	"runtime"
	"sort"
	"strconv"
	"strings"
	"sync"
	"time"
)

type Finding struct {
	Status    string `json:"status"` // "known" | "fixed"
	Property  string `json:"property"`
	Signature string `json:"signature"`
	Commit    string `json:"commit,omitempty"`
	Witness   string `json:"witness,omitempty"`
	Note      string `json:"note,omitempty"`
}

type Run struct {
	Prop  string
	Level string
	tier  string
	seed  int64
	root  string
	only  string
	start time.Time

	mu        sync.Mutex
	evals     int64
	distinctN int64
	distinct  map[uint64]struct{}
	classes   map[string]int64
	samples   []any
	extra     map[string]any
	assume    []string
	viol      map[string]int // signature -> count (unlisted)
	violFile  map[string]string
	known     map[string]int // signature -> count (listed as known)
	inconcl   []string
	findings  []Finding
	events    map[string]int64
	leg       bool
	legViol   map[string]*legViol
	legRule   string
	legFloor  int
}

func env(k, d string) string {
	if v := os.Getenv(k); v != "" {
		return v
	}
	return d
}

func New(prop, level string) *Run {
	r := &Run{
		Prop: prop, Level: level,
		tier:     env("VERIF_TIER", "quick"),
		root:     env("VERIF_ROOT", "/verif"),
		only:     os.Getenv("VERIF_ONLY"),
		start:    time.Now(),
		distinct: map[uint64]struct{}{},
		classes:  map[string]int64{},
		extra:    map[string]any{},
		viol:     map[string]int{},
		violFile: map[string]string{},
		known:    map[string]int{},
		events:   map[string]int64{},
	}
	if r.tier != "quick" && r.tier != "thorough" {
		r.tier = "quick"
	}
	s, err := strconv.ParseInt(env("VERIF_SEED", "1"), 10, 64)
	if err != nil {
		s = 1
	}
	r.seed = s
	b, err := os.ReadFile(filepath.Join(r.root, "known_findings.json"))
	if err == nil {
		if err := json.Unmarshal(b, &r.findings); err != nil {
			fmt.Fprintf(os.Stderr, "known_findings.json: %v\n", err)
			os.Exit(3)
		}
	}
	return r
}

func (r *Run) Tier() string   { return r.tier }
func (r *Run) Thorough() bool { return r.tier == "thorough" }
func (r *Run) Seed() int64    { return r.seed }
func (r *Run) Root() string   { return r.root }

// Only returns the case selector of a replay run ("" when not replaying).
func (r *Run) Only() string { return r.only }

// Pick returns q for the quick tier and t for the thorough tier.
func (r *Run) Pick(q, t int) int {
	if r.Thorough() {
		return t
	}
	return q
}

func h64(s string) uint64 {
	h := fnv.New64a()
	h.Write([]byte(s))
	return h.Sum64()
}

// Rng returns a PRNG determined by (seed, stream name).
func (r *Run) Rng(stream string) *rand.Rand {
	return rand.New(rand.NewPCG(uint64(r.seed), h64(stream)))
}

func (r *Run) Eval(n int64) {
	r.mu.Lock()
	r.evals += n
	r.mu.Unlock()
}

// Class records that a behaviour class was observed.
func (r *Run) Class(name string) {
	r.mu.Lock()
	r.classes[name]++
	r.mu.Unlock()
}

func (r *Run) ClassN(name string, n int64) {
	if n == 0 {
		return
	}
	r.mu.Lock()
	r.classes[name] += n
	r.mu.Unlock()
}

// Event counts an observed event by kind.
func (r *Run) Event(kind string, n int64) {
	r.mu.Lock()
	r.events[kind] += n
	r.mu.Unlock()
}

// Distinct records a distinct non-trivial case by key (hashed).
func (r *Run) Distinct(key string) {
	k := h64(key)
	r.mu.Lock()
	r.distinct[k] = struct{}{}
	r.mu.Unlock()
}

// DistinctN adds n cases that are distinct by construction (enumerations).
func (r *Run) DistinctN(n int64) {
	r.mu.Lock()
	r.distinctN += n
	r.mu.Unlock()
}

func (r *Run) Sample(v any) {
	r.mu.Lock()
	if len(r.samples) < 8 {
		r.samples = append(r.samples, v)
	}
	r.mu.Unlock()
}

func (r *Run) Set(key string, v any) {
	r.mu.Lock()
	r.extra[key] = v
	r.mu.Unlock()
}

func (r *Run) Add(key string, n int64) {
	r.mu.Lock()
	c, _ := r.extra[key].(int64)
	r.extra[key] = c + n
	r.mu.Unlock()
}

func (r *Run) Assume(s string) {
	r.mu.Lock()
	for _, a := range r.assume {
		if a == s {
			r.mu.Unlock()
			return
		}
	}
	r.assume = append(r.assume, s)
	r.mu.Unlock()
}

func (r *Run) Inconclusive(reason string) {
	r.mu.Lock()
	r.inconcl = append(r.inconcl, reason)
	r.mu.Unlock()
}

// Violation reports a violation with a stable signature. Listed known
// findings are counted and printed as KNOWN-FINDING; anything else becomes a
// VIOLATION with a replay file. Returns true if it is an unlisted violation.
func (r *Run) Violation(sig string, caseID string, witness any) bool {
	sig = r.Prop + "|" + sig
	r.mu.Lock()
	defer r.mu.Unlock()
	if r.leg {
		if v, ok := r.legViol[sig]; ok {
			v.Count++
		} else {
			r.legViol[sig] = &legViol{Sig: sig, Case: caseID, Witness: witness, Count: 1}
		}
		r.viol[sig]++
		return true
	}
	for _, f := range r.findings {
		if f.Status == "known" && f.Property == r.Prop && f.Signature == sig {
			r.known[sig]++
			return false
		}
	}
	r.viol[sig]++
	if r.viol[sig] == 1 {
		sum := sha256.Sum256([]byte(sig))
		dir := filepath.Join(env("VERIF_REPLAY_DIR", filepath.Join(r.root, "replay")), r.Prop)
		_ = os.MkdirAll(dir, 0o755)
		p := filepath.Join(dir, hex.EncodeToString(sum[:6])+".json")
		b, _ := json.MarshalIndent(map[string]any{
			"property": r.Prop, "signature": sig, "seed": r.seed, "tier": r.tier,
			"case": caseID, "witness": witness,
		}, "", " ")
		_ = os.WriteFile(p, b, 0o644)
		r.violFile[sig] = p
		fmt.Printf("violation detail: %s case=%s\n", sig, caseID)
	}
	return true
}

// NumViolations returns the number of distinct unlisted violation signatures so far.
func (r *Run) NumViolations() int {
	r.mu.Lock()
	defer r.mu.Unlock()
	return len(r.viol)
}

func sortedKeys[V any](m map[string]V) []string {
	ks := make([]string, 0, len(m))
	for k := range m {
		ks = append(ks, k)
	}
	sort.Strings(ks)
	return ks
}

// Finish writes the evidence file, prints the verdict lines and exits.
// floor is the minimum number of behaviour classes that must have been seen
// for the run to count as "held" rather than inconclusive.
func (r *Run) Finish(rule string, floor int) {
	if r.leg {
		r.mu.Lock()
		r.legRule, r.legFloor = rule, floor
		r.mu.Unlock()
		r.FinishLeg()
	}
	r.mu.Lock()
	wall := time.Since(r.start).Seconds()
	nd := int64(len(r.distinct)) + r.distinctN
	if len(r.distinct) == 0 && r.distinctN == 0 {
		nd = int64(len(r.classes))
	}
	cov := map[string]any{
		"evaluations":         r.evals,
		"distinct_nontrivial": nd,
		"rule":                rule,
		"samples":             r.samples,
		"classes_seen":        r.classes,
		"class_floor":         floor,
		"events_by_kind":      r.events,
		"known_findings_hit":  r.known,
		"inconclusive_cases":  r.inconcl,
		"toolchain":           runtime.Version(),
	}
	for k, v := range r.extra {
		cov[k] = v
	}
	if len(r.samples) == 0 {
		cov["samples"] = []any{}
	}
	nviol := 0
	for _, c := range r.viol {
		nviol += c
	}
	evd := map[string]any{
		"property_id": r.Prop,
		"tier":        r.tier,
		"seed":        r.seed,
		"level":       r.Level,
		"coverage":    cov,
		"assumptions": r.assume,
		"wall_s":      wall,
		"violations":  nviol,
	}
	if r.assume == nil {
		evd["assumptions"] = []string{}
	}
	if r.only == "" {
		dir := env("VERIF_EVIDENCE_DIR", filepath.Join(r.root, "evidence")) // validation runs against changed copies write elsewhere
		_ = os.MkdirAll(dir, 0o755)
		b, err := json.MarshalIndent(evd, "", " ")
		if err != nil {
			fmt.Fprintf(os.Stderr, "evidence marshal: %v\n", err)
		} else {
			tmp := filepath.Join(dir, r.Prop+".json.tmp")
			_ = os.WriteFile(tmp, b, 0o644)
			_ = os.Rename(tmp, filepath.Join(dir, r.Prop+".json"))
		}
	}
	for _, sig := range sortedKeys(r.known) {
		fmt.Printf("KNOWN-FINDING: property=%s %s (seen %d times)\n", r.Prop, sig, r.known[sig])
	}
	code := 0
	if len(r.viol) > 0 {
		for _, sig := range sortedKeys(r.viol) {
			fmt.Printf("VIOLATION property=%s replay=%s signature=%q count=%d\n", r.Prop, r.violFile[sig], sig, r.viol[sig])
		}
		code = 1
	} else if len(r.inconcl) > 0 {
		fmt.Printf("INCONCLUSIVE property=%s reason=%s\n", r.Prop, strings.Join(r.inconcl, "; "))
		code = 2
	} else if r.only == "" && (len(r.classes) < floor || r.evals == 0 || nd < 2) {
		fmt.Printf("INCONCLUSIVE property=%s reason=observed %d behaviour classes (floor %d), %d evaluations, %d distinct\n",
			r.Prop, len(r.classes), floor, r.evals, nd)
		code = 2
	} else {
		fmt.Printf("OK property=%s evaluations=%d distinct=%d classes=%d wall_s=%.1f\n", r.Prop, r.evals, nd, len(r.classes), wall)
	}
	r.mu.Unlock()
	os.Exit(code)
}

// Hex is a small helper for samples.
func Hex(b []byte) string { return hex.EncodeToString(b) }
