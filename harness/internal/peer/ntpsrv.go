package peer

import (
	"encoding/binary"
	"net"
	"net/netip"
	"sync"
	"time"
)

// NTPServer is a scripted server peer on one UDP socket. For every datagram it receives it
// calls the handler (on the receive goroutine, so exchanges are handled in order); the
// handler answers with Send / SendFrom.
type NTPServer struct {
	Conn    *net.UDPConn
	Addr    netip.AddrPort
	mu      sync.Mutex
	others  map[netip.Addr]*net.UDPConn
	handler func(s *NTPServer, req []byte, from netip.AddrPort, rx time.Time)
	closed  chan struct{}
}

func NewNTPServer(addr netip.AddrPort, handler func(s *NTPServer, req []byte, from netip.AddrPort, rx time.Time)) (*NTPServer, error) {
	c, err := net.ListenUDP("udp", net.UDPAddrFromAddrPort(addr))
	if err != nil {
		return nil, err
	}
	s := &NTPServer{Conn: c, others: map[netip.Addr]*net.UDPConn{}, handler: handler, closed: make(chan struct{})}
	s.Addr = c.LocalAddr().(*net.UDPAddr).AddrPort()
	s.Addr = netip.AddrPortFrom(s.Addr.Addr().Unmap(), s.Addr.Port())
	go s.loop()
	return s, nil
}

func (s *NTPServer) SetHandler(h func(s *NTPServer, req []byte, from netip.AddrPort, rx time.Time)) {
	s.mu.Lock()
	s.handler = h
	s.mu.Unlock()
}

func (s *NTPServer) loop() {
	buf := make([]byte, 65536)
	for {
		n, from, err := s.Conn.ReadFromUDPAddrPort(buf)
		rx := time.Now()
		if err != nil {
			close(s.closed)
			return
		}
		s.mu.Lock()
		h := s.handler
		s.mu.Unlock()
		if h != nil {
			h(s, append([]byte{}, buf[:n]...), netip.AddrPortFrom(from.Addr().Unmap(), from.Port()), rx)
		}
	}
}

func (s *NTPServer) Send(to netip.AddrPort, b []byte) {
	_, _ = s.Conn.WriteToUDPAddrPort(b, to)
}

// SendFrom sends from another local address (same port number if possible) — a datagram
// that does not come from the queried server.
func (s *NTPServer) SendFrom(src netip.Addr, to netip.AddrPort, b []byte) error {
	s.mu.Lock()
	c := s.others[src]
	s.mu.Unlock()
	if c == nil {
		var err error
		c, err = net.ListenUDP("udp", net.UDPAddrFromAddrPort(netip.AddrPortFrom(src, s.Addr.Port())))
		if err != nil {
			c, err = net.ListenUDP("udp", net.UDPAddrFromAddrPort(netip.AddrPortFrom(src, 0)))
			if err != nil {
				return err
			}
		}
		s.mu.Lock()
		s.others[src] = c
		s.mu.Unlock()
	}
	_, err := c.WriteToUDPAddrPort(b, to)
	return err
}

// SendFromOtherPort sends from the server's own address but another port — a datagram that
// does not come from the queried server (address and port) either.
func (s *NTPServer) SendFromOtherPort(to netip.AddrPort, b []byte) error {
	key := netip.IPv6Unspecified() // slot for the other-port socket
	s.mu.Lock()
	c := s.others[key]
	s.mu.Unlock()
	if c == nil {
		var err error
		c, err = net.ListenUDP("udp", net.UDPAddrFromAddrPort(netip.AddrPortFrom(s.Addr.Addr(), 0)))
		if err != nil {
			return err
		}
		s.mu.Lock()
		s.others[key] = c
		s.mu.Unlock()
	}
	_, err := c.WriteToUDPAddrPort(b, to)
	return err
}

func (s *NTPServer) Close() {
	s.Conn.Close()
	s.mu.Lock()
	for _, c := range s.others {
		c.Close()
	}
	s.mu.Unlock()
	<-s.closed
}

// ---- NTP packet helpers (independent of the code under test)

const ntpEpochOffset = 2208988800

// ToNTP64 converts a time to a 64-bit NTP timestamp (truncating).
func ToNTP64(t time.Time) uint64 {
	sec := uint64(t.Unix()+ntpEpochOffset) & 0xffffffff
	frac := (uint64(t.Nanosecond()) << 32) / 1000000000
	return sec<<32 | frac
}

type NTPFields struct {
	LVM        byte
	Stratum    byte
	Poll       int8
	Precision  int8
	Origin     uint64
	Receive    uint64
	Transmit   uint64
	Reference  uint64
	RefID      uint32
	RootDelay  uint32
	Dispersion uint32
}

func (f NTPFields) Bytes() []byte {
	b := make([]byte, 48)
	b[0], b[1], b[2], b[3] = f.LVM, f.Stratum, byte(f.Poll), byte(f.Precision)
	binary.BigEndian.PutUint32(b[4:], f.RootDelay)
	binary.BigEndian.PutUint32(b[8:], f.Dispersion)
	binary.BigEndian.PutUint32(b[12:], f.RefID)
	binary.BigEndian.PutUint64(b[16:], f.Reference)
	binary.BigEndian.PutUint64(b[24:], f.Origin)
	binary.BigEndian.PutUint64(b[32:], f.Receive)
	binary.BigEndian.PutUint64(b[40:], f.Transmit)
	return b
}

func ParseNTP(b []byte) (f NTPFields, ok bool) {
	if len(b) < 48 {
		return f, false
	}
	f.LVM, f.Stratum, f.Poll, f.Precision = b[0], b[1], int8(b[2]), int8(b[3])
	f.RootDelay = binary.BigEndian.Uint32(b[4:])
	f.Dispersion = binary.BigEndian.Uint32(b[8:])
	f.RefID = binary.BigEndian.Uint32(b[12:])
	f.Reference = binary.BigEndian.Uint64(b[16:])
	f.Origin = binary.BigEndian.Uint64(b[24:])
	f.Receive = binary.BigEndian.Uint64(b[32:])
	f.Transmit = binary.BigEndian.Uint64(b[40:])
	return f, true
}
