package peer

import (
	"fmt"
	"math/rand/v2"
	"net/netip"

	"github.com/google/gopacket"

	"github.com/scionproto/scion/pkg/addr"
	"github.com/scionproto/scion/pkg/slayers"
	"github.com/scionproto/scion/pkg/slayers/path"
	"github.com/scionproto/scion/pkg/slayers/path/empty"
	"github.com/scionproto/scion/pkg/slayers/path/epic"
	"github.com/scionproto/scion/pkg/slayers/path/onehop"
	"github.com/scionproto/scion/pkg/slayers/path/scion"
	"github.com/scionproto/scion/pkg/spao"
)

// SCIONPkt describes a SCION packet to be serialized with the scion library's layers.
type SCIONPkt struct {
	SrcIA, DstIA     addr.IA
	SrcHost, DstHost netip.Addr
	SrcPort, DstPort uint16
	TrafficClass     uint8
	FlowID           uint32
	Path             path.Path
	E2E              []*slayers.EndToEndOption
	HBH              []*slayers.HopByHopOption
	SCMP             *slayers.SCMP // non-nil: SCMP message instead of UDP; Payload is the SCMP payload
	SCMPEcho         *slayers.SCMPEcho
	SCMPTrace        *slayers.SCMPTraceroute
	Payload          []byte
	// raw overrides of the host address fields (type/length nibble and bytes), for address
	// types other than IP
	RawSrcType, RawDstType *slayers.AddrType
	RawSrc, RawDst         []byte
}

// Serialize encodes the packet. The returned layer values can be used to recompute authenticators.
func (p *SCIONPkt) Serialize() ([]byte, error) {
	var s slayers.SCION
	s.Version = 0
	s.TrafficClass = p.TrafficClass
	s.FlowID = p.FlowID
	s.SrcIA, s.DstIA = p.SrcIA, p.DstIA
	if err := s.SetSrcAddr(addr.HostIP(p.SrcHost)); err != nil {
		return nil, err
	}
	if err := s.SetDstAddr(addr.HostIP(p.DstHost)); err != nil {
		return nil, err
	}
	if p.RawSrcType != nil {
		s.SrcAddrType, s.RawSrcAddr = *p.RawSrcType, p.RawSrc
	}
	if p.RawDstType != nil {
		s.DstAddrType, s.RawDstAddr = *p.RawDstType, p.RawDst
	}
	if p.Path == nil {
		p.Path = empty.Path{}
	}
	s.Path = p.Path
	s.PathType = p.Path.Type()
	buffer := gopacket.NewSerializeBuffer()
	opts := gopacket.SerializeOptions{ComputeChecksums: true, FixLengths: true}
	l4 := slayers.L4UDP
	if err := gopacket.Payload(p.Payload).SerializeTo(buffer, opts); err != nil {
		return nil, err
	}
	if p.SCMP != nil {
		l4 = slayers.L4SCMP
		if p.SCMPEcho != nil {
			if err := p.SCMPEcho.SerializeTo(buffer, opts); err != nil {
				return nil, err
			}
		}
		if p.SCMPTrace != nil {
			if err := p.SCMPTrace.SerializeTo(buffer, opts); err != nil {
				return nil, err
			}
		}
		p.SCMP.SetNetworkLayerForChecksum(&s)
		if err := p.SCMP.SerializeTo(buffer, opts); err != nil {
			return nil, err
		}
	} else {
		var u slayers.UDP
		u.SrcPort, u.DstPort = p.SrcPort, p.DstPort
		u.SetNetworkLayerForChecksum(&s)
		if err := u.SerializeTo(buffer, opts); err != nil {
			return nil, err
		}
	}
	s.NextHdr = l4
	if len(p.E2E) > 0 {
		e := slayers.EndToEndExtn{}
		e.NextHdr = l4
		e.Options = p.E2E
		if err := e.SerializeTo(buffer, opts); err != nil {
			return nil, err
		}
		s.NextHdr = slayers.End2EndClass
	}
	if len(p.HBH) > 0 {
		h := slayers.HopByHopExtn{}
		h.NextHdr = s.NextHdr
		h.Options = p.HBH
		if err := h.SerializeTo(buffer, opts); err != nil {
			return nil, err
		}
		s.NextHdr = slayers.HopByHopClass
	}
	if err := s.SerializeTo(buffer, opts); err != nil {
		return nil, err
	}
	return append([]byte{}, buffer.Bytes()...), nil
}

// ParsedSCION is a decoded SCION packet.
type ParsedSCION struct {
	SCION   slayers.SCION
	HasE2E  bool
	E2E     slayers.EndToEndExtn
	HasUDP  bool
	UDP     slayers.UDP
	HasSCMP bool
	SCMP    slayers.SCMP
	RawPath []byte
	L4Bytes []byte // UDP header + payload as received
}

func ParseSCION(b []byte) (*ParsedSCION, error) {
	p := &ParsedSCION{}
	var hbh slayers.HopByHopExtnSkipper
	p.UDP.SetNetworkLayerForChecksum(&p.SCION)
	p.SCMP.SetNetworkLayerForChecksum(&p.SCION)
	parser := gopacket.NewDecodingLayerParser(slayers.LayerTypeSCION, &p.SCION, &hbh, &p.E2E, &p.UDP, &p.SCMP)
	parser.IgnoreUnsupported = true
	decoded := make([]gopacket.LayerType, 0, 5)
	if err := parser.DecodeLayers(b, &decoded); err != nil {
		return nil, err
	}
	for _, lt := range decoded {
		switch lt {
		case slayers.LayerTypeEndToEndExtn:
			p.HasE2E = true
		case slayers.LayerTypeSCIONUDP:
			p.HasUDP = true
		case slayers.LayerTypeSCMP:
			p.HasSCMP = true
		}
	}
	if p.SCION.Path != nil {
		p.RawPath = make([]byte, p.SCION.Path.Len())
		if err := p.SCION.Path.SerializeTo(p.RawPath); err != nil {
			return nil, err
		}
	}
	if p.HasUDP && int(p.UDP.Length) <= len(b) {
		p.L4Bytes = b[len(b)-int(p.UDP.Length):]
	}
	return p, nil
}

// ---- paths

func hop(rng *rand.Rand) path.HopField {
	h := path.HopField{ExpTime: uint8(rng.IntN(256)), ConsIngress: uint16(rng.IntN(65536)), ConsEgress: uint16(rng.IntN(65536))}
	for i := range h.Mac {
		h.Mac[i] = byte(rng.IntN(256))
	}
	return h
}

// SCIONPath builds a standard SCION path with the given segment lengths (1..3 segments).
// The current pointers are placed at the last hop, as for a packet that arrived at its destination.
func SCIONPath(rng *rand.Rand, segLens ...int) *scion.Decoded {
	d := &scion.Decoded{}
	total := 0
	for i, l := range segLens {
		d.PathMeta.SegLen[i] = uint8(l)
		d.InfoFields = append(d.InfoFields, path.InfoField{ConsDir: rng.IntN(2) == 0, Peer: false, SegID: uint16(rng.IntN(65536)), Timestamp: rng.Uint32()})
		for j := 0; j < l; j++ {
			d.HopFields = append(d.HopFields, hop(rng))
		}
		total += l
	}
	d.NumINF = len(segLens)
	d.NumHops = total
	d.PathMeta.CurrINF = uint8(len(segLens) - 1)
	d.PathMeta.CurrHF = uint8(total - 1)
	return d
}

func OneHopPath(rng *rand.Rand, secondSet bool) *onehop.Path {
	o := &onehop.Path{Info: path.InfoField{ConsDir: true, SegID: uint16(rng.IntN(65536)), Timestamp: rng.Uint32()}, FirstHop: hop(rng)}
	if secondSet {
		o.SecondHop = hop(rng)
		if o.SecondHop.ConsIngress == 0 {
			o.SecondHop.ConsIngress = 1
		}
	} else {
		o.SecondHop = path.HopField{}
	}
	return o
}

func EPICPath(rng *rand.Rand, segLens ...int) (*epic.Path, error) {
	raw, err := SCIONPath(rng, segLens...).ToRaw()
	if err != nil {
		return nil, err
	}
	e := &epic.Path{PktID: epic.PktID{Timestamp: rng.Uint32(), Counter: rng.Uint32()}, PHVF: make([]byte, 4), LHVF: make([]byte, 4), ScionPath: raw}
	for i := 0; i < 4; i++ {
		e.PHVF[i], e.LHVF[i] = byte(rng.IntN(256)), byte(rng.IntN(256))
	}
	return e, nil
}

// ---- packet authenticator (SPAO) helpers

const (
	AuthOptDataLen = 28 // 12 bytes metadata + 16 bytes MAC
)

// NewAuthOption returns an authenticator option with the given SPI/algorithm and a zero MAC.
func NewAuthOption(spi uint32, algo uint8) *slayers.EndToEndOption {
	d := make([]byte, AuthOptDataLen)
	d[0], d[1], d[2], d[3] = byte(spi>>24), byte(spi>>16), byte(spi>>8), byte(spi)
	d[4] = algo
	o := &slayers.EndToEndOption{OptType: slayers.OptTypeAuthenticator, OptData: d}
	o.OptAlign = [2]uint8{4, 2}
	return o
}

// ComputeMAC computes the AES-CMAC authenticator over a parsed/prepared SCION layer and the L4 bytes.
func ComputeMAC(key []byte, opt *slayers.EndToEndOption, s *slayers.SCION, l4 slayers.L4ProtocolType, pld []byte) ([]byte, error) {
	buf := make([]byte, spao.MACBufferSize)
	out := make([]byte, 16)
	return spao.ComputeAuthCMAC(spao.MACInput{Key: key, Header: slayers.PacketAuthOption{EndToEndOption: opt}, ScionLayer: s, PldType: l4, Pld: pld}, buf, out)
}

// SignPkt serializes p with an authenticator option whose MAC is computed under key. It
// returns the packet bytes. The option must be the first entry of p.E2E.
func SignPkt(p *SCIONPkt, key []byte) ([]byte, error) {
	if len(p.E2E) == 0 || p.E2E[0].OptType != slayers.OptTypeAuthenticator {
		return nil, fmt.Errorf("no authenticator option")
	}
	// first pass to obtain the L4 bytes and the SCION layer as the receiver will see them
	b, err := p.Serialize()
	if err != nil {
		return nil, err
	}
	ps, err := ParseSCION(b)
	if err != nil {
		return nil, err
	}
	opt, err := ps.E2E.FindOption(slayers.OptTypeAuthenticator)
	if err != nil {
		return nil, err
	}
	mac, err := ComputeMAC(key, opt, &ps.SCION, slayers.L4UDP, ps.L4Bytes)
	if err != nil {
		return nil, err
	}
	copy(p.E2E[0].OptData[12:], mac)
	return p.Serialize()
}
