// Package peer contains the scripted network peers of the monitors: raw UDP clients with
// sentinel requests, a scripted NTP/NTS server, a scripted NTS-KE TLS server and SCION
// packet builders. Nothing here is part of an oracle's trusted arithmetic.
package peer

import (
	"crypto/ecdsa"
	"crypto/elliptic"
	"crypto/rand"
	"crypto/tls"
	"crypto/x509"
	"crypto/x509/pkix"
	"math/big"
	"net"
	"time"
)

// SelfSignedCert returns a fresh self-signed certificate valid for the given IPs.
func SelfSignedCert(ips ...net.IP) (tls.Certificate, error) {
	key, err := ecdsa.GenerateKey(elliptic.P256(), rand.Reader)
	if err != nil {
		return tls.Certificate{}, err
	}
	tmpl := &x509.Certificate{
		SerialNumber: big.NewInt(time.Now().UnixNano()),
		Subject:      pkix.Name{CommonName: "verif"},
		NotBefore:    time.Now().Add(-time.Hour),
		NotAfter:     time.Now().Add(48 * time.Hour),
		KeyUsage:     x509.KeyUsageDigitalSignature,
		ExtKeyUsage:  []x509.ExtKeyUsage{x509.ExtKeyUsageServerAuth},
		IPAddresses:  ips,
		DNSNames:     []string{"localhost"},
	}
	der, err := x509.CreateCertificate(rand.Reader, tmpl, tmpl, &key.PublicKey, key)
	if err != nil {
		return tls.Certificate{}, err
	}
	return tls.Certificate{Certificate: [][]byte{der}, PrivateKey: key}, nil
}
