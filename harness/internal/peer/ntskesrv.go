package peer

import (
	"bufio"
	"crypto/tls"
	"encoding/binary"
	"errors"
	"fmt"
	"io"
	"net"
	"net/netip"
	"sync"
	"time"
)

// NTSKEConn is what the scripted NTS-KE server learned about one connection.
type NTSKEConn struct {
	ID       int
	ALPN     string
	C2S, S2C []byte // RFC 8915 exporter values computed on the server side of the TLS session
	Request  []byte // bytes received from the client (up to its end-of-message record)
	Sent     []byte // bytes actually written
	Err      error
}

// NTSKEScript decides what to send on one connection: the byte stream, the write
// segmentation (cut offsets; nil = one write) and after how many bytes to drop the
// connection (-1 = write everything, then close).
type NTSKEScript func(c *NTSKEConn) (stream []byte, cuts []int, closeAfter int)

// NTSKEServer is a scripted NTS-KE server over TLS.
type NTSKEServer struct {
	L      net.Listener
	ALPNs  []string // protocols the server offers (nil = "ntske/1")
	mu     sync.Mutex
	conns  []*NTSKEConn
	script NTSKEScript
	wg     sync.WaitGroup
	// HandshakeGate, if set, is asked for every ClientHello (numbered from 1); a non-nil channel
	// stalls that handshake until the channel is closed and then aborts it.
	HandshakeGate func(n int) <-chan struct{}
	hellos        int
}

func NewNTSKEServer(addr netip.AddrPort, alpns []string, script NTSKEScript) (*NTSKEServer, error) {
	cert, err := SelfSignedCert(addr.Addr().AsSlice())
	if err != nil {
		return nil, err
	}
	if alpns == nil {
		alpns = []string{"ntske/1"}
	}
	s := &NTSKEServer{ALPNs: alpns, script: script}
	cfg := &tls.Config{Certificates: []tls.Certificate{cert}, MinVersion: tls.VersionTLS13}
	cfg.GetConfigForClient = func(*tls.ClientHelloInfo) (*tls.Config, error) {
		s.mu.Lock()
		s.hellos++
		n, gate := s.hellos, s.HandshakeGate
		s.mu.Unlock()
		if gate != nil {
			if ch := gate(n); ch != nil {
				<-ch
				return nil, errors.New("scripted handshake abort")
			}
		}
		s.mu.Lock()
		defer s.mu.Unlock()
		c := &tls.Config{Certificates: []tls.Certificate{cert}, MinVersion: tls.VersionTLS13, NextProtos: append([]string{}, s.ALPNs...)}
		return c, nil
	}
	l, err := tls.Listen("tcp", addr.String(), cfg)
	if err != nil {
		return nil, err
	}
	s.L = l
	go s.loop()
	return s, nil
}

func (s *NTSKEServer) SetScript(f NTSKEScript) { s.mu.Lock(); s.script = f; s.mu.Unlock() }
func (s *NTSKEServer) SetALPNs(a []string)     { s.mu.Lock(); s.ALPNs = a; s.mu.Unlock() }

// Conns returns the connections seen so far.
func (s *NTSKEServer) Conns() []*NTSKEConn {
	s.mu.Lock()
	defer s.mu.Unlock()
	return append([]*NTSKEConn{}, s.conns...)
}

func (s *NTSKEServer) NumConns() int { s.mu.Lock(); defer s.mu.Unlock(); return len(s.conns) }

func (s *NTSKEServer) Close() { s.L.Close() }

// Wait blocks until all accepted connections have been handled.
func (s *NTSKEServer) Wait() { s.wg.Wait() }

func (s *NTSKEServer) loop() {
	for {
		c, err := s.L.Accept()
		if err != nil {
			return
		}
		s.wg.Add(1)
		go s.handle(c.(*tls.Conn))
	}
}

func exportKeys(cs tls.ConnectionState) (c2s, s2c []byte, err error) {
	label := "EXPORTER-network-time-security"
	s2c, err = cs.ExportKeyingMaterial(label, []byte{0, 0, 0, 15, 1}, 32)
	if err != nil {
		return
	}
	c2s, err = cs.ExportKeyingMaterial(label, []byte{0, 0, 0, 15, 0}, 32)
	return
}

func (s *NTSKEServer) handle(c *tls.Conn) {
	defer s.wg.Done()
	defer c.Close()
	_ = c.SetDeadline(time.Now().Add(15 * time.Second))
	rec := &NTSKEConn{}
	s.mu.Lock()
	rec.ID = len(s.conns) + 1
	s.conns = append(s.conns, rec)
	script := s.script
	s.mu.Unlock()
	if err := c.Handshake(); err != nil {
		rec.Err = err
		return
	}
	cs := c.ConnectionState()
	rec.ALPN = cs.NegotiatedProtocol
	rec.C2S, rec.S2C, rec.Err = exportKeys(cs)
	// read the client's records up to end-of-message
	br := bufio.NewReader(c)
	for {
		hdr := make([]byte, 4)
		if _, err := io.ReadFull(br, hdr); err != nil {
			break
		}
		rec.Request = append(rec.Request, hdr...)
		n := int(binary.BigEndian.Uint16(hdr[2:]))
		body := make([]byte, n)
		if _, err := io.ReadFull(br, body); err != nil {
			break
		}
		rec.Request = append(rec.Request, body...)
		if binary.BigEndian.Uint16(hdr)&0x7fff == 0 {
			break
		}
	}
	if script == nil {
		return
	}
	stream, cuts, closeAfter := script(rec)
	if closeAfter == -2 { // stall: write what the script gave and keep the connection open without ever finishing
		_, _ = c.Write(stream)
		_ = c.SetDeadline(time.Now().Add(30 * time.Second))
		buf := make([]byte, 16)
		_, _ = c.Read(buf)
		return
	}
	if closeAfter >= 0 && closeAfter < len(stream) {
		stream = stream[:closeAfter]
	}
	prev := 0
	for _, cut := range append(append([]int{}, cuts...), len(stream)) {
		if cut <= prev || cut > len(stream) {
			continue
		}
		if _, err := c.Write(stream[prev:cut]); err != nil {
			rec.Err = err
			return
		}
		rec.Sent = append(rec.Sent, stream[prev:cut]...)
		prev = cut
		if len(cuts) > 0 {
			time.Sleep(200 * time.Microsecond) // let the segment travel as its own TLS record / TCP segment
		}
	}
}

// ---- record helpers

func KERecord(typ uint16, critical bool, body []byte) []byte {
	if critical {
		typ |= 0x8000
	}
	b := make([]byte, 4+len(body))
	binary.BigEndian.PutUint16(b, typ)
	binary.BigEndian.PutUint16(b[2:], uint16(len(body)))
	copy(b[4:], body)
	return b
}

func u16(v uint16) []byte { return []byte{byte(v >> 8), byte(v)} }

// KEMessage builds a conformant server message: next protocol, AEAD algorithm, optional
// server/port records, the cookies, end of message.
func KEMessage(algo uint16, server string, port uint16, cookies [][]byte) []byte {
	var b []byte
	b = append(b, KERecord(1, true, u16(0))...)
	b = append(b, KERecord(4, true, u16(algo))...)
	if server != "" {
		b = append(b, KERecord(6, false, []byte(server))...)
	}
	if port != 0 {
		b = append(b, KERecord(7, false, u16(port))...)
	}
	for _, c := range cookies {
		b = append(b, KERecord(5, false, c)...)
	}
	return append(b, KERecord(0, true, nil)...)
}

// TaggedCookie returns a cookie of n bytes (n >= 16) that identifies its connection and index.
func TaggedCookie(conn, idx, n int) []byte {
	c := make([]byte, n)
	copy(c, fmt.Sprintf("CK%05d.%05d.", conn, idx))
	for i := 16; i < n; i++ {
		c[i] = byte(conn*31 + idx*7 + i)
	}
	return c
}

// ParseTaggedCookie inverts TaggedCookie.
func ParseTaggedCookie(c []byte) (conn, idx int, ok bool) {
	if len(c) < 16 || c[0] != 'C' || c[1] != 'K' {
		return 0, 0, false
	}
	_, err := fmt.Sscanf(string(c[:14]), "CK%05d.%05d.", &conn, &idx)
	return conn, idx, err == nil
}
