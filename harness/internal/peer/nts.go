package peer

import (
	"crypto/rand"
	"encoding/binary"

	"github.com/miscreant/miscreant.go"
)

// NTS extension field helpers, independent of the encoder under test. Only the AES-SIV
// primitive (miscreant) is shared.

type NTSField struct {
	Type uint16
	Body []byte // without padding
	Off  int    // offset of the field header in the packet
	Len  int    // length word
}

// ParseNTSFields walks the extension fields after the 48-byte header.
func ParseNTSFields(b []byte) (fs []NTSField) {
	pos := 48
	for pos+4 <= len(b) {
		t := binary.BigEndian.Uint16(b[pos:])
		l := int(binary.BigEndian.Uint16(b[pos+2:]))
		if l < 4 || pos+l > len(b) {
			fs = append(fs, NTSField{Type: t, Off: pos, Len: l})
			return
		}
		fs = append(fs, NTSField{Type: t, Body: b[pos+4 : pos+l], Off: pos, Len: l})
		pos += l
	}
	return
}

func ntsExt(t uint16, body []byte) []byte {
	n := (len(body) + 3) &^ 3
	b := make([]byte, 4+n)
	binary.BigEndian.PutUint16(b, t)
	binary.BigEndian.PutUint16(b[2:], uint16(4+n))
	copy(b[4:], body)
	return b
}

// NTSResponse builds an NTS-protected server packet: header | unique id | authenticator
// whose ciphertext carries one cookie field per cookie, sealed under key with the
// preceding bytes as associated data.
func NTSResponse(hdr []byte, uid []byte, cookies [][]byte, key []byte) []byte {
	var plain []byte
	for _, c := range cookies {
		plain = append(plain, ntsExt(0x0204, c)...)
	}
	return NTSResponsePlain(hdr, uid, plain, key)
}

// NTSResponsePlain seals arbitrary bytes as the encrypted extension fields.
func NTSResponsePlain(hdr []byte, uid []byte, plain []byte, key []byte) []byte {
	pkt := append([]byte{}, hdr[:48]...)
	pkt = append(pkt, ntsExt(0x0104, uid)...)
	nonce := make([]byte, 16)
	_, _ = rand.Read(nonce)
	aead, err := miscreant.NewAEAD("AES-CMAC-SIV", key, 16)
	if err != nil {
		panic(err)
	}
	ct := aead.Seal(nil, nonce, plain, pkt)
	body := make([]byte, 4, 4+16+len(ct)+3)
	binary.BigEndian.PutUint16(body, 16)
	binary.BigEndian.PutUint16(body[2:], uint16(len(ct)))
	body = append(body, nonce...)
	body = append(body, ct...)
	return append(pkt, ntsExt(0x0404, body)...)
}

// NTSOpenRequest verifies a request's authenticator under key and returns whether it is valid.
func NTSOpenRequest(pkt []byte, key []byte) bool {
	for _, f := range ParseNTSFields(pkt) {
		if f.Type == 0x0404 && len(f.Body) >= 4 {
			nl := int(binary.BigEndian.Uint16(f.Body))
			cl := int(binary.BigEndian.Uint16(f.Body[2:]))
			if 4+nl > len(f.Body) {
				return false
			}
			np := (nl + 3) &^ 3
			if 4+np+cl > len(f.Body) {
				return false
			}
			aead, err := miscreant.NewAEAD("AES-CMAC-SIV", key, 16)
			if err != nil || nl != 16 {
				return false
			}
			_, err = aead.Open(nil, f.Body[4:4+nl], f.Body[4+np:4+np+cl], pkt[:f.Off])
			return err == nil
		}
	}
	return false
}

// NTSRequest builds an NTS client request: header | unique id | one cookie | np placeholders
// (type 0x0304, zero body of the cookie's length) | authenticator under key.
func NTSRequest(hdr, uid, cookie []byte, np int, key []byte) []byte {
	return NTSRequestPlain(hdr, uid, cookie, np, key, nil)
}

// NTSRequestPlain is NTSRequest with the given bytes as the authenticator's encrypted plaintext.
func NTSRequestPlain(hdr, uid, cookie []byte, np int, key []byte, plain []byte) []byte {
	pkt := append([]byte{}, hdr[:48]...)
	pkt = append(pkt, ntsExt(0x0104, uid)...)
	pkt = append(pkt, ntsExt(0x0204, cookie)...)
	for i := 0; i < np; i++ {
		pkt = append(pkt, ntsExt(0x0304, make([]byte, len(cookie)))...)
	}
	nonce := make([]byte, 16)
	_, _ = rand.Read(nonce)
	aead, err := miscreant.NewAEAD("AES-CMAC-SIV", key, 16)
	if err != nil {
		panic(err)
	}
	ct := aead.Seal(nil, nonce, plain, pkt)
	body := make([]byte, 4, 4+16+len(ct))
	binary.BigEndian.PutUint16(body, 16)
	binary.BigEndian.PutUint16(body[2:], uint16(len(ct)))
	body = append(body, nonce...)
	body = append(body, ct...)
	return append(pkt, ntsExt(0x0404, body)...)
}

// NTSOpenResponse verifies a server response under key, checks the unique id and returns
// the cookies from the encrypted extension fields. problem is "" when everything is in order.
func NTSOpenResponse(pkt, key, uid []byte) (cookies [][]byte, problem string) {
	var gotUID []byte
	fs := ParseNTSFields(pkt)
	for _, f := range fs {
		switch f.Type {
		case 0x0104:
			gotUID = f.Body
		case 0x0404:
			if f.Body == nil || len(f.Body) < 4 {
				return nil, "authenticator field truncated"
			}
			nl := int(binary.BigEndian.Uint16(f.Body))
			cl := int(binary.BigEndian.Uint16(f.Body[2:]))
			np := (nl + 3) &^ 3
			if nl != 16 || 4+np+cl > len(f.Body) {
				return nil, "authenticator lengths do not fit the field"
			}
			// the field body is padded to a multiple of four bytes
			if len(gotUID) < len(uid) || len(gotUID) > len(uid)+3 || string(gotUID[:len(uid)]) != string(uid) {
				return nil, "unique identifier differs from the request's"
			}
			aead, err := miscreant.NewAEAD("AES-CMAC-SIV", key, 16)
			if err != nil {
				return nil, err.Error()
			}
			plain, err := aead.Open(nil, f.Body[4:4+nl], f.Body[4+np:4+np+cl], pkt[:f.Off])
			if err != nil {
				return nil, "authenticator does not verify under the server-to-client key"
			}
			pos := 0
			for pos+4 <= len(plain) {
				t := binary.BigEndian.Uint16(plain[pos:])
				l := int(binary.BigEndian.Uint16(plain[pos+2:]))
				if l < 4 || pos+l > len(plain) {
					return cookies, "encrypted extension fields malformed"
				}
				if t == 0x0204 {
					cookies = append(cookies, append([]byte{}, plain[pos+4:pos+l]...))
				}
				pos += l
			}
			return cookies, ""
		}
	}
	return nil, "no authenticator field found (reply truncated or not an NTS reply)"
}
