package peer

import (
	"encoding/binary"
	"net"
	"net/netip"
	"sync/atomic"
	"time"
)

// UDPClient is a raw UDP endpoint with a fixed local address that records everything it
// receives. The "sentinel" discipline decides "no reply" by ordering instead of a
// timeout: Linux delivers one 4-tuple to one SO_REUSEPORT socket and a listener goroutine
// handles its socket in order, so once the reply to a well-formed sentinel sent after a
// datagram has arrived, every reply to that datagram has arrived too.
type UDPClient struct {
	Conn *net.UDPConn
}

type Datagram struct {
	From netip.AddrPort
	Data []byte
}

func NewUDPClient(local netip.Addr) (*UDPClient, error) {
	c, err := net.ListenUDP("udp", net.UDPAddrFromAddrPort(netip.AddrPortFrom(local, 0)))
	if err != nil {
		return nil, err
	}
	_ = c.SetReadBuffer(4 << 20)
	return &UDPClient{Conn: c}, nil
}

// NewUDPClientAt is NewUDPClient with a fixed local port.
func NewUDPClientAt(local netip.AddrPort) (*UDPClient, error) {
	c, err := net.ListenUDP("udp", net.UDPAddrFromAddrPort(local))
	if err != nil {
		return nil, err
	}
	_ = c.SetReadBuffer(4 << 20)
	return &UDPClient{Conn: c}, nil
}

func (c *UDPClient) Close()                { c.Conn.Close() }
func (c *UDPClient) Local() netip.AddrPort { return c.Conn.LocalAddr().(*net.UDPAddr).AddrPort() }

func (c *UDPClient) Send(dst netip.AddrPort, b []byte) error {
	_, err := c.Conn.WriteToUDPAddrPort(b, dst)
	return err
}

// ReadUntil reads datagrams until match returns true for one (which is returned
// separately) or the watchdog d expires.
func (c *UDPClient) ReadUntil(d time.Duration, match func(Datagram) bool) (before []Datagram, hit *Datagram) {
	_ = c.Conn.SetReadDeadline(time.Now().Add(d))
	buf := make([]byte, 65536)
	for {
		n, from, err := c.Conn.ReadFromUDPAddrPort(buf)
		if err != nil {
			return before, nil
		}
		dg := Datagram{From: netip.AddrPortFrom(from.Addr().Unmap(), from.Port()), Data: append([]byte{}, buf[:n]...)}
		if match(dg) {
			return before, &dg
		}
		before = append(before, dg)
	}
}

// Drain reads whatever is queued without blocking longer than d.
func (c *UDPClient) Drain(d time.Duration) []Datagram {
	out, _ := c.ReadUntil(d, func(Datagram) bool { return false })
	return out
}

var uniq atomic.Uint64

// UniqueTime64 returns a fresh 64-bit value usable as a unique NTP transmit timestamp.
func UniqueTime64() uint64 {
	return 0xE000000000000000 | uniq.Add(1)<<8 | 0x5a
}

// NTPRequest builds a 48-byte client request (version 4, mode 3) with the given transmit timestamp.
func NTPRequest(tx uint64) []byte {
	b := make([]byte, 48)
	b[0] = 4<<3 | 3
	binary.BigEndian.PutUint64(b[40:], tx)
	return b
}

// NTPOrigin returns the origin timestamp of an NTP packet (0 if too short).
func NTPOrigin(b []byte) uint64 {
	if len(b) < 48 {
		return 0
	}
	return binary.BigEndian.Uint64(b[24:])
}
