package peer

import (
	"context"
	"crypto/sha256"
	"encoding/binary"
	"errors"
	"net"
	"sync"
	"sync/atomic"
	"time"

	"google.golang.org/grpc"
	"google.golang.org/protobuf/types/known/timestamppb"

	"github.com/scionproto/scion/pkg/drkey"
	"github.com/scionproto/scion/pkg/drkey/generic"
	sdpb "github.com/scionproto/scion/pkg/proto/daemon"
)

// FakeDaemon is a scripted SCION daemon that answers only the DRKey requests (gRPC, like
// the real one). Keys are a deterministic function of a secret, the protocol, the two
// ISD-ASes, the fast-side host and the epoch, so that the harness can compute every key the
// code under test can obtain — and the keys of every *other* identity.
type FakeDaemon struct {
	sdpb.UnimplementedDaemonServiceServer
	Secret []byte
	Epoch  time.Duration // epoch length; epochs are aligned to multiples of it since the Unix epoch
	L      net.Listener
	srv    *grpc.Server

	LocalIA  uint64                  // answer of the AS request
	PathSets map[uint64][]*sdpb.Path // answer of the Paths request, by destination ISD-AS
	mu       sync.Mutex
	failing  bool
	hostAS   int // requests seen
	hostHost int
	log      []DaemonReq
	live     *atomic.Int64
}

// DaemonReq is one DRKey request the daemon answered.
type DaemonReq struct {
	Level            string // "host-as" | "host-host"
	SrcIA, DstIA     uint64
	SrcHost, DstHost string
	ValTime          time.Time
}

// countingListener counts the connections that are open at the moment.
type countingListener struct {
	net.Listener
	live *atomic.Int64
}

type countedConn struct {
	net.Conn
	live *atomic.Int64
	once sync.Once
}

func (l countingListener) Accept() (net.Conn, error) {
	c, err := l.Listener.Accept()
	if err != nil {
		return nil, err
	}
	l.live.Add(1)
	return &countedConn{Conn: c, live: l.live}, nil
}

func (c *countedConn) Close() error {
	c.once.Do(func() { c.live.Add(-1) })
	return c.Conn.Close()
}

// LiveConns returns the number of client connections to the daemon that are open.
func (d *FakeDaemon) LiveConns() int64 { return d.live.Load() }

func NewFakeDaemon(addr string, secret []byte, epoch time.Duration) (*FakeDaemon, error) {
	l0, err := net.Listen("tcp", addr)
	if err != nil {
		return nil, err
	}
	live := &atomic.Int64{}
	l := countingListener{Listener: l0, live: live}
	d := &FakeDaemon{Secret: secret, Epoch: epoch, L: l, srv: grpc.NewServer(), live: live}
	sdpb.RegisterDaemonServiceServer(d.srv, d)
	go func() { _ = d.srv.Serve(l) }()
	return d, nil
}

func (d *FakeDaemon) Addr() string { return d.L.Addr().String() }
func (d *FakeDaemon) Close()       { d.srv.Stop() }

// SetFailing makes every DRKey request fail (daemon reachable, key service down).
func (d *FakeDaemon) SetFailing(f bool) { d.mu.Lock(); d.failing = f; d.mu.Unlock() }

func (d *FakeDaemon) Counts() (hostAS, hostHost int) {
	d.mu.Lock()
	defer d.mu.Unlock()
	return d.hostAS, d.hostHost
}

func (d *FakeDaemon) Requests() []DaemonReq {
	d.mu.Lock()
	defer d.mu.Unlock()
	return append([]DaemonReq{}, d.log...)
}

// EpochOf returns the epoch that contains t.
func (d *FakeDaemon) EpochOf(t time.Time) (begin, end time.Time) {
	e := int64(d.Epoch)
	b := t.UnixNano() / e * e
	return time.Unix(0, b), time.Unix(0, b+e)
}

// HostASKey is the level-2 key of (proto, srcIA -> dstIA, fast-side host srcHost) in the epoch of t.
func (d *FakeDaemon) HostASKey(proto int32, srcIA, dstIA uint64, srcHost string, t time.Time) drkey.Key {
	b, _ := d.EpochOf(t)
	h := sha256.New()
	h.Write(d.Secret)
	var u [28]byte
	binary.BigEndian.PutUint32(u[0:], uint32(proto))
	binary.BigEndian.PutUint64(u[4:], srcIA)
	binary.BigEndian.PutUint64(u[12:], dstIA)
	binary.BigEndian.PutUint64(u[20:], uint64(b.UnixNano()))
	h.Write(u[:])
	h.Write([]byte(srcHost))
	var k drkey.Key
	copy(k[:], h.Sum(nil))
	return k
}

// HostHostKey is the level-3 key derived the way the SCION generic derivation does it.
func (d *FakeDaemon) HostHostKey(proto int32, srcIA, dstIA uint64, srcHost, dstHost string, t time.Time) (drkey.Key, error) {
	k2 := d.HostASKey(proto, srcIA, dstIA, srcHost, t)
	return generic.Deriver{Proto: drkey.Protocol(proto)}.DeriveHostHost(dstHost, k2)
}

var errDaemonDown = errors.New("drkey service unavailable (scripted)")

func (d *FakeDaemon) DRKeyHostAS(ctx context.Context, rq *sdpb.DRKeyHostASRequest) (*sdpb.DRKeyHostASResponse, error) {
	d.mu.Lock()
	d.hostAS++
	fail := d.failing
	t := rq.ValTime.AsTime()
	d.log = append(d.log, DaemonReq{"host-as", rq.SrcIa, rq.DstIa, rq.SrcHost, "", t})
	d.mu.Unlock()
	if fail {
		return nil, errDaemonDown
	}
	k := d.HostASKey(int32(rq.ProtocolId), rq.SrcIa, rq.DstIa, rq.SrcHost, t)
	b, e := d.EpochOf(t)
	return &sdpb.DRKeyHostASResponse{EpochBegin: timestamppb.New(b), EpochEnd: timestamppb.New(e), Key: k[:]}, nil
}

func (d *FakeDaemon) DRKeyHostHost(ctx context.Context, rq *sdpb.DRKeyHostHostRequest) (*sdpb.DRKeyHostHostResponse, error) {
	d.mu.Lock()
	d.hostHost++
	fail := d.failing
	t := rq.ValTime.AsTime()
	d.log = append(d.log, DaemonReq{"host-host", rq.SrcIa, rq.DstIa, rq.SrcHost, rq.DstHost, t})
	d.mu.Unlock()
	if fail {
		return nil, errDaemonDown
	}
	k, err := d.HostHostKey(int32(rq.ProtocolId), rq.SrcIa, rq.DstIa, rq.SrcHost, rq.DstHost, t)
	if err != nil {
		return nil, err
	}
	b, e := d.EpochOf(t)
	return &sdpb.DRKeyHostHostResponse{EpochBegin: timestamppb.New(b), EpochEnd: timestamppb.New(e), Key: k[:]}, nil
}

// AS answers the local-AS query (Pather, LocalIA).
func (d *FakeDaemon) AS(ctx context.Context, rq *sdpb.ASRequest) (*sdpb.ASResponse, error) {
	return &sdpb.ASResponse{IsdAs: d.LocalIA, Mtu: 1472}, nil
}

// Paths answers with the scripted path set of the destination.
func (d *FakeDaemon) Paths(ctx context.Context, rq *sdpb.PathsRequest) (*sdpb.PathsResponse, error) {
	d.mu.Lock()
	defer d.mu.Unlock()
	return &sdpb.PathsResponse{Paths: d.PathSets[rq.DestinationIsdAs]}, nil
}

// SetPaths scripts the path set of one destination.
func (d *FakeDaemon) SetPaths(dst uint64, ps []*sdpb.Path) {
	d.mu.Lock()
	if d.PathSets == nil {
		d.PathSets = map[uint64][]*sdpb.Path{}
	}
	d.PathSets[dst] = ps
	d.mu.Unlock()
}

// DaemonPath builds one daemon path entry: raw dataplane path, underlay next hop and the two
// interfaces that give it its fingerprint.
func DaemonPath(raw []byte, nextHop string, srcIA, dstIA uint64, idx int) *sdpb.Path {
	return &sdpb.Path{Raw: raw, Interface: &sdpb.Interface{Address: &sdpb.Underlay{Address: nextHop}},
		Interfaces: []*sdpb.PathInterface{{IsdAs: srcIA, Id: uint64(1000 + idx)}, {IsdAs: dstIA, Id: uint64(2000 + idx)}},
		Mtu:        1472, Expiration: timestamppb.New(time.Now().Add(6 * time.Hour))}
}
