// Command mon is the monitor driver: mon <Cxx> runs the monitor of one
// property; mon leg <name> args... runs a child-process leg.
package main

import (
	"fmt"
	"io"
	"log"
	"os"
	"sort"

	"verif/harness/internal/ev"
	"verif/harness/monitors"
)

func main() {
	log.SetOutput(io.Discard) // third-party libraries (quic-go) write advice to the standard logger
	if len(os.Args) < 2 {
		ids := []string{}
		for id := range monitors.Registry {
			ids = append(ids, id)
		}
		sort.Strings(ids)
		fmt.Println("usage: mon <Cxx> | mon leg <name> args...; monitors:", ids)
		os.Exit(3)
	}
	if os.Args[1] == "leg" {
		if len(os.Args) < 3 {
			os.Exit(3)
		}
		f, ok := monitors.Legs[os.Args[2]]
		if !ok {
			fmt.Fprintln(os.Stderr, "unknown leg", os.Args[2])
			os.Exit(3)
		}
		f(os.Args[3:])
		return
	}
	m, ok := monitors.Registry[os.Args[1]]
	if !ok {
		fmt.Fprintln(os.Stderr, "unknown monitor", os.Args[1])
		os.Exit(3)
	}
	r := ev.New(m.ID, m.Level)
	m.Run(r)
	// every monitor ends with r.Finish; reaching here is a harness bug
	fmt.Fprintln(os.Stderr, "monitor returned without verdict")
	os.Exit(3)
}
