#!/bin/bash
# rebase.sh <seed-name>... — re-create filed seeded changes that no longer apply to /repo HEAD by a three-way
# merge against the blobs they were written for (scratch worktree, removed afterwards). The original patch is kept
# as patch.before-rebase.diff. Prints REBASED / CONFLICT / BUILD-FAIL per seed; never touches /repo's working tree.
export PATH=/root/go/pkg/mod/golang.org/toolchain@v0.0.1-go1.24.2.linux-amd64/bin:$PATH GOFLAGS=-mod=mod GOPROXY=off GOSUMDB=off GOTOOLCHAIN=local
W=$(mktemp -d /tmp/rebase-XXXXXX); rmdir "$W"
git -C /repo worktree add -q --detach "$W" HEAD || exit 3
trap 'git -C /repo worktree remove --force "$W"; git -C /repo worktree prune' EXIT
for n in "$@"; do
  d=/verif/seeded/$n
  git -C "$W" checkout -q -- . ; git -C "$W" clean -fdq
  if git -C "$W" apply --check "$d/patch.diff" 2>/dev/null; then echo "$n: applies already"; continue; fi
  if ! git -C "$W" apply --3way "$d/patch.diff" >/dev/null 2>&1 || git -C "$W" diff --name-only --diff-filter=U | grep -q .; then
    echo "$n: CONFLICT"; git -C "$W" reset -q --hard; continue
  fi
  git -C "$W" reset -q   # unstage, keep working tree
  if ! (cd "$W" && go build ./... 2>/dev/null); then echo "$n: BUILD-FAIL"; continue; fi
  [ -f "$d/patch.before-rebase.diff" ] || cp "$d/patch.diff" "$d/patch.before-rebase.diff"
  git -C "$W" diff > "$d/patch.diff"
  echo "REBASED: three-way merge onto $(git -C /repo rev-parse --short HEAD) (original in patch.before-rebase.diff)" >> "$d/eval.log"
  echo "$n: REBASED"
done
