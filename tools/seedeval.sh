#!/bin/bash
# seedeval.sh <seed-dir (e.g. /tmp/seed-C12/out/a)> <name (e.g. C12-a)> <checks (C12[,C08])> <demo-run-command (run in the repo copy root)>
# Confirms a seeded change in a scratch copy of /repo (builds, existing tests pass, demo fails with / passes without the
# change), runs the named checks against the changed copy, and files everything under /verif/seeded/<name>/.
set -u
SRC="$1"; NAME="$2"; CHECKS="$3"; DEMO="$4"
export GOFLAGS=-mod=mod GOPROXY=off
W=$(mktemp -d /tmp/seedeval-XXXXXX)
trap 'rm -rf "$W"' EXIT
(cd /repo && git ls-files -z | xargs -0 tar -cf - ) | tar -xf - -C "$W"
cd "$W" || exit 3
OUT=/verif/seeded/$NAME
mkdir -p "$OUT"
cp "$SRC/patch.diff" "$OUT/patch.diff"
rm -rf "$OUT/demo"; cp -r "$SRC/demo" "$OUT/demo"
[ -f "$SRC/meta.json" ] && cp "$SRC/meta.json" "$OUT/meta.agent.json"
res() { echo "$1" | tee -a "$OUT/eval.log"; }
: > "$OUT/eval.log"
if ! git apply --check "$SRC/patch.diff" 2>/dev/null && ! patch -p1 --dry-run < "$SRC/patch.diff" >/dev/null 2>&1; then res "APPLY: patch does not apply to current /repo HEAD"; exit 2; fi
patch -p1 -s < "$SRC/patch.diff" || { res "APPLY failed"; exit 2; }
if go build ./... 2>&1 | tail -3 | grep -q .; then res "BUILD: fails with change"; BUILD=fail; else res "BUILD: ok with change"; BUILD=ok; fi
T=$(go test -vet=off -count=1 ./... 2>&1 | grep -v '^ok\|no test files' | head -5)
if [ -z "$T" ]; then res "TESTS: existing suite passes with change"; TESTS=pass; else res "TESTS: existing suite FAILS with change: $T"; TESTS=fail; fi
# demo: copy files preserving relative paths given under demo/ (README says where); caller's command does the placement if needed
( eval "$DEMO" ) > "$W/demo_with.log" 2>&1; DW=$?
patch -p1 -R -s < "$SRC/patch.diff"
( eval "$DEMO" ) > "$W/demo_without.log" 2>&1; DWO=$?
res "DEMO: with change exit=$DW, without change exit=$DWO"
patch -p1 -s < "$SRC/patch.diff"
DET=""
for c in ${CHECKS//,/ }; do
  o=$(VERIF_EVIDENCE_DIR=/tmp/verif-mut-evidence VERIF_REPLAY_DIR=/tmp/verif-mut-replay VERIF_REPO="$W" /verif/check "$c" quick 2>&1 | grep '^VIOLATION\|^OK\|^INCONCLUSIVE' | head -3 | cut -c1-300)
  rc=$(echo "$o" | grep -c '^VIOLATION')
  res "CHECK $c quick: $o"
  DET="$DET $c:$([ "$rc" -gt 0 ] && echo detected || echo missed)"
done
res "SUMMARY name=$NAME build=$BUILD tests=$TESTS demo_with=$DW demo_without=$DWO detection:$DET"
