#!/bin/bash
# runall.sh [tier] [seed] [jobs] — run every registered check; print one line per check.
TIER=${1:-quick}; SEED=${2:-1}; JOBS=${3:-4}
cd "$(dirname "$0")/.."
ids=$(jq -r '.checks[].property_id' MANIFEST.json)
run() { id=$1; s=$(date +%s); out=$(VERIF_SEED=$SEED ./check $id $TIER 2>&1; echo "EXIT=$?"); rc=${out##*EXIT=}; out=$(echo "$out" | grep '^OK\|^VIOLATION\|^INCONCLUSIVE\|^KNOWN' | head -3 | cut -c1-220); echo "$id rc=$rc $(( $(date +%s)-s ))s | $out"; }
export -f run; export SEED TIER
echo $ids | tr ' ' '\n' | xargs -P $JOBS -I{} bash -c 'run {}'
