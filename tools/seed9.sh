#!/bin/bash
# seed9.sh <Cxx> [extra checks] — evaluate the variants a/b of /tmp/seed9-Cxx/out with the next free seed letters
P=$1; EXTRA=${2:-}
cd /verif
for v in a b; do
  src=/tmp/seed9-$P/out/$v
  [ -f $src/patch.diff ] || continue
  # next free letter
  for l in a b c d e f g h i j k l m n o p; do [ -d seeded/$P-$l ] || break; done
  name=$P-$l
  checks=$P; [ -n "$EXTRA" ] && checks=$P,$EXTRA
  echo "== $name <- $src ($checks)"
  python3 tools/autose.py $src $name $checks 2>&1 | grep "^DEMO:\|^SUMMARY\|cannot place\|no go test" | cut -c1-300
done
