#!/bin/bash
# seedsweep.sh [jobs] — regression of the filed seeded changes: every seed is re-run against the checks that
# detected it before (or its own property's check if none did); prints one line per (seed, check).
JOBS=${1:-4}
cd "$(dirname "$0")/.."
for d in seeded/*/; do
  n=$(basename $d)
  cs=$(grep -h '^\(RE\)\?CHECK' $d/eval.log | awk '{c=$2; sub(":","",c); st[c]=($0 ~ /VIOLATION/)?"d":"m"} END{for(c in st) if(st[c]=="d") printf "%s,",c}')
  [ -z "$cs" ] && cs=${n:0:3}
  echo "$n ${cs%,}"
done | xargs -P $JOBS -L1 bash -c 'tools/seedcheck.sh $0 $1 2>&1 | grep -v "^VIOLATION" | cut -c1-120'
