#!/bin/bash
# seedcheck.sh <seed-name> <checks (C12[,C08])> [tier] — re-run checks against a filed seeded change (scratch copy, removed afterwards)
NAME=$1; CHECKS=$2; TIER=${3:-quick}
W=$(mktemp -d /tmp/seedcheck-XXXXXX)
trap 'rm -rf "$W"' EXIT
(cd /repo && git ls-files -z | xargs -0 tar -cf - ) | tar -xf - -C "$W"
cd "$W" || exit 3
patch -p1 -s < /verif/seeded/$NAME/patch.diff || { echo "$NAME: patch does not apply"; exit 2; }
for c in ${CHECKS//,/ }; do
  # one run per check at a time: concurrent runs of one check share its loopback address block
  exec 9>/tmp/verif-seedcheck-$c.lock; flock 9
  o=$(VERIF_EVIDENCE_DIR=/tmp/verif-mut-evidence VERIF_REPLAY_DIR=/tmp/verif-mut-replay VERIF_REPO="$W" /verif/check "$c" $TIER 2>&1 | grep '^VIOLATION\|^OK\|^INCONCLUSIVE' | head -2 | cut -c1-260)
  flock -u 9
  echo "$NAME $c: $o"
  [ "$TIER" = quick ] && echo "RECHECK $c: $(echo "$o" | head -1)" >> /verif/seeded/$NAME/eval.log
done
