#!/bin/bash
# se.sh <seed-src-dir> <name> <checks> <demo-file-name> <dest-dir-in-repo> <test-run-regex> [extra go test flags]
# shorthand for seedeval.sh when the demonstration is one in-package test file
SRC=$1; NAME=$2; CHECKS=$3; F=$4; DEST=$5; RX=$6; shift 6
exec "$(dirname "$0")/seedeval.sh" "$SRC" "$NAME" "$CHECKS" "cp /verif/seeded/$NAME/demo/$F $DEST/ && go test -vet=off -count=1 $* -run '$RX' ./$DEST/"
