#!/usr/bin/env python3
"""autose.py <seed-src-dir> <name> <checks> — derive the demonstration command from demo/README.txt
(placement path of every demo file and the `go test` line(s)) and hand over to seedeval.sh."""
import os, re, subprocess, sys
src, name, checks = sys.argv[1:4]
demo = os.path.join(src, "demo")
readme = open(os.path.join(demo, "README.txt")).read()
files = [f for f in sorted(os.listdir(demo)) if f != "README.txt" and os.path.isfile(os.path.join(demo, f))]
cmds = []
tests = []
for ln in readme.splitlines():
    m = re.search(r"(go test .*)$", ln)
    if m and "./" in m.group(1):
        t = m.group(1).strip().rstrip(";").strip()
        t = re.sub(r"\s+-v\b", "", t)
        if t not in tests:
            tests.append(t)
pk_dirs = []
for t in tests:
    pk_dirs += re.findall(r"\./([\w/.-]+?)/?(?=\s|$)", t)
for f in files:
    dest = None
    for m in re.finditer(r"([\w./-]+)/" + re.escape(f), readme):
        d = m.group(1)
        d = re.sub(r"^.*?((?:core|net|base|driver|benchmark)/[\w/]*|(?:core|net|base|driver))$", r"\1", d) if re.search(r"(core|net|base|driver)", d) else d
        if re.match(r"^(core|net|base|driver)(/|$)", d):
            dest = d
            break
    if dest is None:
        body = open(os.path.join(demo, f)).read()
        pm = re.search(r"^package (\w+)", body, re.M)
        pkg = pm.group(1).replace("_test", "") if pm else ""
        cand = [d for d in pk_dirs if d.rstrip("/").split("/")[-1] == pkg or (pkg == "main" and d in (".", ""))]
        dest = cand[0] if cand else (pk_dirs[0] if pk_dirs else None)
    if dest is None:
        print("cannot place", f); sys.exit(2)
    cmds.append(f"cp /verif/seeded/{name}/demo/{f} {dest.rstrip('/')}/")
if not tests:
    print("no go test line"); sys.exit(2)
tests = [t if "-vet=off" in t else t.replace("go test", "go test -vet=off", 1) for t in tests[:2]]
cmd = " && ".join(cmds + tests[:1]) if len(tests) == 1 else " && ".join(cmds) + " && " + " && ".join(tests)
print("DEMO:", cmd)
sys.exit(subprocess.call([os.path.join(os.path.dirname(os.path.abspath(__file__)), "seedeval.sh"), src, name, checks, cmd]))
