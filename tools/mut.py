#!/usr/bin/env python3
"""mut.py <Cxx[,Cyy]> <repo-file> <old> <new> [tier] — apply a textual mutation to /repo, check that it
compiles and that the package tests still pass, run the checks, revert.  For monitor validation only."""
import subprocess, sys, os
ids, f, old, new = sys.argv[1].split(","), sys.argv[2], sys.argv[3], sys.argv[4]
tier = sys.argv[5] if len(sys.argv) > 5 else "quick"
REPO = os.environ.get("VERIF_REPO", "/repo")
p = os.path.join(REPO, f)
s = open(p).read()
if s.count(old) != 1:
    print("MUT: pattern occurs", s.count(old), "times"); sys.exit(2)
open(p, "w").write(s.replace(old, new))
try:
    env = dict(os.environ, GOFLAGS="-mod=mod", GOPROXY="off")
    b = subprocess.run("go build ./... && go test -vet=off -count=1 ./... 2>&1 | grep -v '^ok\\|no test files' | head -5", shell=True, cwd=REPO, env=env, capture_output=True, text=True)
    print("MUT build/tests:", "clean" if not (b.stdout + b.stderr).strip() else (b.stdout + b.stderr))
    for i in ids:
        c = subprocess.run(["/verif/check", i, tier], capture_output=True, text=True)
        lines = [l for l in c.stdout.splitlines() if l.startswith(("VIOLATION", "OK", "INCONCLUSIVE", "KNOWN"))]
        print("MUT", i, "exit", c.returncode, "|", " / ".join(l[:200] for l in lines[:3]))
finally:
    open(p, "w").write(s)
