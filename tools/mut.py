#!/usr/bin/env python3
"""mut.py <Cxx[,Cyy]> <repo-file> <old> <new> [tier] — apply a textual mutation to a private copy of /repo
(HEAD + working tree changes of tracked files), check that it compiles and that the test suite still passes,
run the checks against the copy (VERIF_REPO), remove the copy.  For monitor validation only; /repo is never touched.
With VERIF_REPO set, mutates that copy in place instead (and reverts)."""
import subprocess, sys, os, tempfile, shutil
ids, f, old, new = sys.argv[1].split(","), sys.argv[2], sys.argv[3], sys.argv[4]
tier = sys.argv[5] if len(sys.argv) > 5 else "quick"
own = None
REPO = os.environ.get("VERIF_REPO")
if not REPO:
    own = tempfile.mkdtemp(prefix="verif-mutrepo-")
    subprocess.run("git -C /repo ls-files -z | (cd /repo && xargs -0 tar -cf - ) | tar -xf - -C " + own, shell=True, check=True)
    REPO = own
p = os.path.join(REPO, f)
s = open(p).read()
try:
    if s.count(old) != 1:
        print("MUT: pattern occurs", s.count(old), "times"); sys.exit(2)
    open(p, "w").write(s.replace(old, new))
    env = dict(os.environ, GOFLAGS="-mod=mod", GOPROXY="off", VERIF_REPO=REPO, VERIF_EVIDENCE_DIR="/tmp/verif-mut-evidence", VERIF_REPLAY_DIR="/tmp/verif-mut-replay")
    b = subprocess.run("go build ./... && go test -vet=off -count=1 ./... 2>&1 | grep -v '^ok\\|no test files' | head -5", shell=True, cwd=REPO, env=env, capture_output=True, text=True)
    print("MUT build/tests:", "clean" if not (b.stdout + b.stderr).strip() else (b.stdout + b.stderr))
    for i in ids:
        try:
            c = subprocess.run(["/verif/check", i, tier], capture_output=True, text=True, env=env, timeout=int(os.environ.get("MUT_TIMEOUT", "900")))
            lines = [l for l in c.stdout.splitlines() if l.startswith(("VIOLATION", "OK", "INCONCLUSIVE", "KNOWN"))]
            print("MUT", i, "exit", c.returncode, "|", " / ".join(l[:220] for l in lines[:3]))
        except subprocess.TimeoutExpired:
            print("MUT", i, "TIMEOUT")
finally:
    open(p, "w").write(s)
    if own:
        shutil.rmtree(own, ignore_errors=True)
