#!/usr/bin/env python3
"""seedtable.py — (re)generate seeded/<name>/meta.json for seeds that lack one and print the DESIGN.md table.
Detection status per check = the latest 'CHECK <id> quick:' or 'RECHECK <id>:' line in eval.log."""
import json, glob, os, re, sys
root = os.path.dirname(os.path.dirname(os.path.abspath(__file__)))
rows = []
for d in sorted(glob.glob(root + "/seeded/*")):
    name = os.path.basename(d)
    log = open(d + "/eval.log").read().splitlines() if os.path.exists(d + "/eval.log") else []
    status = {}
    for ln in log:
        m = re.match(r"(?:RE)?CHECK (C\d\d)(?: quick)?: ?(.*)", ln)
        if m:
            status[m.group(1)] = "detected" if m.group(2).startswith("VIOLATION") else "missed"
    if any(l.startswith("OBSOLETE") for l in log):
        status = {"": "no longer a behaviour change (see eval.log)"}
    summ = [l for l in log if l.startswith("SUMMARY")]
    agent = {}
    if os.path.exists(d + "/meta.agent.json"):
        try:
            agent = json.load(open(d + "/meta.agent.json"))
        except Exception:
            agent = {}
    mp = d + "/meta.json"
    if not os.path.exists(mp):
        meta = {"name": name, "property": name[:3], "summary": agent.get("summary", ""), "clause_broken": agent.get("clause_broken", ""),
                "needs_to_manifest": agent.get("needs_to_manifest", ""), "files_changed": agent.get("files_changed", []),
                "confirmed_by_me": {"how": "tools/seedeval.sh in a scratch copy of /repo HEAD: patch applies, go build ./..., existing test suite, demo with and without the change, then the named checks with VERIF_REPO pointing at the changed copy",
                                    "result": summ[-1] if summ else ""},
                "eval_log": log}
        json.dump(meta, open(mp, "w"), indent=1)
    else:
        meta = json.load(open(mp))
        meta["eval_log"] = log
        json.dump(meta, open(mp, "w"), indent=1)
    s = meta.get("summary", "").replace("|", "/").replace("\n", " ")
    if len(s) > 170:
        s = s[:170] + "..."
    rows.append("| %s | %s | %s |" % (name, s, " ".join(("%s:%s" % kv).lstrip(":") for kv in status.items())))
print("| seed | change | quick checks |\n|------|--------|--------------|")
print("\n".join(rows))
